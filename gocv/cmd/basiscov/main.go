// basiscov: a basis-adequacy report. It runs the repository's generator, built with statement
// coverage, over every schema of the basis under every option set and lists the generator
// statements no basis schema reaches. A generator branch that never runs emits code no check has
// looked at: each uncovered block is either irrelevant to the claimed properties (imports,
// constants, the formatter) or a hole in the basis.
//
//	basiscov [-tier quick|thorough] [-repo /repo] [-out file]
package main

import (
	"bufio"
	"flag"
	"fmt"
	"os"
	"os/exec"
	"path/filepath"
	"sort"
	"strconv"
	"strings"

	"gocv/internal/basis"
)

func main() {
	tier := flag.String("tier", "thorough", "basis tier")
	repo := flag.String("repo", "/repo", "repository")
	out := flag.String("out", "", "report file (default stdout)")
	flag.Parse()
	dir, err := os.MkdirTemp("", "basiscov")
	check(err)
	defer os.RemoveAll(dir)
	cov := filepath.Join(dir, "cov")
	check(os.MkdirAll(cov, 0o755))
	basis.CoverDir = cov
	schemas := basis.Enumerate(*tier, 1)
	jobs, err := basis.Generate(dir, *repo, schemas, basis.OptionSets("thorough", 1))
	check(err)
	rejected := 0
	for _, j := range jobs {
		if j.ReadErr != "" || j.GenErr != "" {
			rejected++
		}
	}
	prof := filepath.Join(dir, "prof.txt")
	cmd := exec.Command("go", "tool", "covdata", "textfmt", "-i="+cov, "-o="+prof)
	cmd.Dir = dir
	cmd.Env = append(os.Environ(), "GOFLAGS=-mod=mod", "GOPROXY=off", "GOSUMDB=off", "GOTOOLCHAIN=local")
	if b, err := cmd.CombinedOutput(); err != nil {
		check(fmt.Errorf("covdata: %v\n%s", err, b))
	}
	type block struct {
		file           string
		l0, c0, l1, c1 int
		n, count       int
	}
	var blocks []block
	f, err := os.Open(prof)
	check(err)
	sc := bufio.NewScanner(f)
	for sc.Scan() {
		ln := sc.Text()
		if strings.HasPrefix(ln, "mode:") {
			continue
		}
		// path/file.go:l0.c0,l1.c1 n count
		i := strings.LastIndex(ln, ":")
		rest := strings.Fields(ln[i+1:])
		if len(rest) != 3 {
			continue
		}
		var b block
		b.file = filepath.Base(ln[:i])
		se := strings.Split(rest[0], ",")
		a := strings.Split(se[0], ".")
		z := strings.Split(se[1], ".")
		b.l0, _ = strconv.Atoi(a[0])
		b.c0, _ = strconv.Atoi(a[1])
		b.l1, _ = strconv.Atoi(z[0])
		b.c1, _ = strconv.Atoi(z[1])
		b.n, _ = strconv.Atoi(rest[1])
		b.count, _ = strconv.Atoi(rest[2])
		blocks = append(blocks, b)
	}
	f.Close()
	w := os.Stdout
	if *out != "" {
		w, err = os.Create(*out)
		check(err)
		defer w.Close()
	}
	files := map[string][2]int{}
	for _, b := range blocks {
		x := files[b.file]
		x[0] += b.n
		if b.count > 0 {
			x[1] += b.n
		}
		files[b.file] = x
	}
	var names []string
	for n := range files {
		names = append(names, n)
	}
	sort.Strings(names)
	fmt.Fprintf(w, "basis adequacy: generator statement coverage, tier=%s, %d schemas x 32 option sets = %d packages (%d rejected by the repository)\n\n", *tier, len(schemas), len(jobs), rejected)
	for _, n := range names {
		x := files[n]
		fmt.Fprintf(w, "%-22s %4d/%4d statements reached\n", n, x[1], x[0])
	}
	fmt.Fprintf(w, "\nunreached blocks in the generator (gen*.go):\n")
	sort.Slice(blocks, func(i, j int) bool {
		if blocks[i].file != blocks[j].file {
			return blocks[i].file < blocks[j].file
		}
		return blocks[i].l0 < blocks[j].l0
	})
	src := map[string][]string{}
	for _, b := range blocks {
		if b.count > 0 || !strings.HasPrefix(b.file, "gen") {
			continue
		}
		if _, ok := src[b.file]; !ok {
			bs, _ := os.ReadFile(filepath.Join(*repo, b.file))
			src[b.file] = strings.Split(string(bs), "\n")
		}
		first := ""
		if b.l0-1 < len(src[b.file]) {
			for l := b.l0; l <= b.l1 && l-1 < len(src[b.file]); l++ {
				t := strings.TrimSpace(src[b.file][l-1])
				if l == b.l0 && b.c0-1 <= len(src[b.file][l-1]) {
					t = strings.TrimSpace(src[b.file][l-1][b.c0-1:])
				}
				if t != "" && t != "{" {
					first = t
					break
				}
			}
		}
		if len(first) > 110 {
			first = first[:110]
		}
		fmt.Fprintf(w, "  %s:%d-%d (%d stmts)  %s\n", b.file, b.l0, b.l1, b.n, first)
	}
}

func check(err error) {
	if err != nil {
		fmt.Fprintln(os.Stderr, err)
		os.Exit(2)
	}
}
