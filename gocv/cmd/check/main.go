// check: per-property entry point registered in /verif/MANIFEST.json.
//
//	check <ID> [--tier quick|thorough]
//	check --replay <path>
//
// Exit 0 when every obligation of the property is discharged (known findings
// are printed as KNOWN-FINDING lines); exit 1 with VIOLATION lines otherwise.
package main

import (
	"encoding/json"
	"flag"
	"fmt"
	"os"
	"path/filepath"
	"sort"
	"strconv"
	"strings"
	"time"

	"gocv/internal/props"
)

func main() {
	tier := flag.String("tier", "", "quick|thorough")
	replay := flag.String("replay", "", "replay file to re-run")
	repo := flag.String("repo", "/repo", "repository under verification")
	verif := flag.String("verif", "/verif", "verification directory")
	keep := flag.Bool("keep", false, "keep the scratch directory")
	verbose := flag.Bool("v", false, "print every obligation")
	flag.Parse()
	if *replay != "" {
		os.Exit(props.Replay(*replay, *repo, *verif))
	}
	if flag.NArg() < 1 {
		fmt.Fprintln(os.Stderr, "usage: check <property-id> [--tier quick|thorough]")
		os.Exit(2)
	}
	id := flag.Arg(0)
	// flags may follow the id
	for i := 1; i < flag.NArg(); i++ {
		switch flag.Arg(i) {
		case "--tier", "-tier":
			if i+1 < flag.NArg() {
				*tier = flag.Arg(i + 1)
				i++
			}
		case "--repo", "-repo":
			if i+1 < flag.NArg() {
				*repo = flag.Arg(i + 1)
				i++
			}
		case "-v":
			*verbose = true
		case "--keep":
			*keep = true
		}
	}
	if *tier == "" {
		*tier = os.Getenv("VERIF_TIER")
	}
	if *tier == "" {
		*tier = "quick"
	}
	seed := int64(1)
	if s := os.Getenv("VERIF_SEED"); s != "" {
		if v, err := strconv.ParseInt(s, 10, 64); err == nil {
			seed = v
		}
	}
	start := time.Now()
	rc := &props.Run{ID: id, Tier: *tier, Seed: seed, Repo: *repo, Verif: *verif, Verbose: *verbose, Keep: *keep}
	if err := rc.Execute(); err != nil {
		// infrastructure failure: not a verdict about the property
		fmt.Fprintln(os.Stderr, "check: error:", err)
		os.Exit(2)
	}
	rc.Wall = time.Since(start).Seconds()
	if err := writeEvidence(rc); err != nil {
		fmt.Fprintln(os.Stderr, "check: cannot write evidence:", err)
		os.Exit(2)
	}
	for _, k := range rc.KnownHit {
		fmt.Printf("KNOWN-FINDING: property=%s %s\n", id, k)
	}
	for _, v := range rc.Violations {
		line := fmt.Sprintf("VIOLATION property=%s replay=%s", id, v.ReplayPath)
		if !v.HasInput {
			line += " no-failing-input-found"
		}
		fmt.Println(line)
	}
	fmt.Printf("%s %s: obligations=%d discharged=%d known-findings=%d violations=%d bounded-cases=%d wall=%.1fs\n",
		id, *tier, rc.NObl, rc.NDischarged, len(rc.KnownHit), len(rc.Violations), rc.BoundedCases, rc.Wall)
	if len(rc.Violations) > 0 {
		os.Exit(1)
	}
}

func writeEvidence(rc *props.Run) error {
	level := rc.Level
	if level == "" {
		level = "proof"
	}
	cov := map[string]interface{}{}
	for k, v := range rc.Coverage {
		cov[k] = v
	}
	var tb []string
	for a := range rc.Assumptions {
		tb = append(tb, a)
	}
	sort.Strings(tb)
	cov["obligations"] = rc.NObl
	cov["discharged"] = rc.NDischarged
	cov["checker_cmd"] = fmt.Sprintf("/verif/bin/check %s --tier %s", rc.ID, rc.Tier)
	cov["trusted_base"] = tb
	cov["functions_under_contract"] = rc.Functions
	cov["by_backend"] = rc.ByBackend
	cov["by_class"] = rc.ByClass
	cov["solver_time_s"] = rc.SolverTime
	cov["cover_queries"] = rc.NCover
	cov["known_findings_hit"] = rc.KnownHit
	cov["bounded_standins"] = rc.Bounded
	cov["samples"] = rc.Samples
	cov["explanation"] = rc.Explanation
	if level != "proof" {
		cov["evaluations"] = rc.BoundedCases
		cov["distinct_nontrivial"] = rc.BoundedDistinct
		cov["rule"] = rc.Rule
	}
	ev := map[string]interface{}{
		"property_id": rc.ID,
		"tier":        rc.Tier,
		"seed":        rc.Seed,
		"level":       level,
		"coverage":    cov,
		"assumptions": tb,
		"wall_s":      rc.Wall,
		"violations":  len(rc.Violations),
	}
	b, err := json.MarshalIndent(ev, "", " ")
	if err != nil {
		return err
	}
	dir := filepath.Join(rc.Verif, "evidence")
	if err := os.MkdirAll(dir, 0o755); err != nil {
		return err
	}
	return os.WriteFile(filepath.Join(dir, strings.ToUpper(rc.ID)+".json"), append(b, '\n'), 0o644)
}
