// gocv: low-level driver — verify functions of a package and print obligations.
package main

import (
	"flag"
	"fmt"
	"os"
	"runtime"
	"sort"
	"strings"
	"time"

	"gocv/internal/vc"
)

func main() {
	dir := flag.String("dir", "/repo", "module directory")
	pat := flag.String("pkg", "./iohelp", "package pattern")
	only := flag.String("func", "", "only functions whose key contains this")
	theory := flag.String("theory", "/verif/contracts/theory.smt2", "theory prelude")
	extra := flag.String("contracts", "/verif/contracts/stdlib.contracts", "extra contract files (comma separated)")
	timeout := flag.Int("timeout", 10, "solver timeout (s)")
	dump := flag.String("dump", "", "directory to save failing queries")
	showAll := flag.Bool("v", false, "print every obligation")
	ovf := flag.Bool("overflow", false, "check signed overflow")
	flag.Parse()
	e, err := vc.Load(*dir, *pat)
	if err != nil {
		fmt.Fprintln(os.Stderr, err)
		os.Exit(2)
	}
	e.TimeoutS = *timeout
	e.CheckOverflow = *ovf
	if b, err := os.ReadFile(*theory); err == nil {
		e.RawSMT = append(e.RawSMT, string(b))
	}
	for _, c := range strings.Split(*extra, ",") {
		if c == "" {
			continue
		}
		if _, err := os.Stat(c); err == nil {
			if err := e.AddContractFile(c, ""); err != nil {
				fmt.Fprintln(os.Stderr, err)
				os.Exit(2)
			}
		}
	}
	if err := e.AddContractFilesIn(); err != nil {
		fmt.Fprintln(os.Stderr, err)
		os.Exit(2)
	}
	var all []*vc.Obligation
	for _, p := range e.Pkgs {
		for _, fn := range e.Functions(p.PkgPath) {
			if *only != "" && !strings.Contains(fn.String(), *only) {
				continue
			}
			tg := time.Now()
			obls, _, err := e.VerifyFunc(fn)
			fmt.Fprintf(os.Stderr, "generate %s: %.1fs\n", fn.Name(), time.Since(tg).Seconds())
			if err != nil {
				fmt.Println("ENGINE-ERROR", err)
				continue
			}
			all = append(all, obls...)
		}
	}
	all = append(all, e.LemmaObligations()...)
	t0 := time.Now()
	e.Discharge(all, runtime.NumCPU()*3/4)
	fmt.Fprintf(os.Stderr, "discharge: %.1fs\n", time.Since(t0).Seconds())
	bad := 0
	byClass := map[string][2]int{}
	for _, o := range all {
		c := byClass[o.Class]
		c[0]++
		if o.Held() {
			c[1]++
		} else {
			bad++
		}
		byClass[o.Class] = c
		if !o.Held() || *showAll {
			fmt.Printf("%-7s %-8s %.2fs %s\n", o.Result.Status, o.Result.Solver, o.Result.Seconds, o.ID)
			if (!o.Held() || *showAll) && *dump != "" {
				fmt.Println("   query:", vc.SaveQuery(*dump, o))
			}
		}
	}
	var cs []string
	for c := range byClass {
		cs = append(cs, c)
	}
	sort.Strings(cs)
	for _, c := range cs {
		fmt.Printf("%-14s %d/%d\n", c, byClass[c][1], byClass[c][0])
	}
	nb := 0
	for _, o := range all {
		if o.Batched > 0 {
			nb++
		}
	}
	fmt.Fprintf(os.Stderr, "batched frame obligations: %d\n", nb)
	fmt.Printf("obligations=%d failed=%d\n", len(all), bad)
}
