package main

import (
	"fmt"
	"os"

	"golang.org/x/tools/go/packages"
	"golang.org/x/tools/go/ssa"
	"golang.org/x/tools/go/ssa/ssautil"
)

func main() {
	cfg := &packages.Config{Mode: packages.LoadAllSyntax, Dir: os.Args[1], BuildFlags: []string{"-tags=verif"}}
	pkgs, err := packages.Load(cfg, os.Args[2])
	if err != nil {
		panic(err)
	}
	prog, spkgs := ssautil.Packages(pkgs, ssa.NaiveForm)
	for _, p := range spkgs {
		if p != nil {
			p.Build()
		}
	}
	_ = prog
	for _, p := range spkgs {
		for _, m := range p.Members {
			if f, ok := m.(*ssa.Function); ok {
				if len(os.Args) > 3 && f.Name() != os.Args[3] {
					continue
				}
				f.WriteTo(os.Stdout)
			}
		}
	}
	fmt.Println("ok")
}
