// Package basis enumerates the schema basis (the bounded stand-in for the
// quantifier over schemas), renders it as .bop text for the repository's own
// ReadFile+Generate, and derives from the same description — never from the
// generated code — the reference wire functions and the contracts the
// generated methods must satisfy.
package basis

import (
	"fmt"
	"sort"
	"strings"
)

// Kind of a type expression.
type Kind int

const (
	Prim Kind = iota
	EnumK
	Rec
	Arr
	MapK
)

// Type is a Bebop type expression.
type Type struct {
	Kind Kind
	Name string // primitive name, enum name or record name
	Elem *Type  // array element / map value
	Key  string // map key (primitive name)
}

func P(name string) *Type           { return &Type{Kind: Prim, Name: name} }
func E(name string) *Type           { return &Type{Kind: EnumK, Name: name} }
func R(name string) *Type           { return &Type{Kind: Rec, Name: name} }
func A(el *Type) *Type              { return &Type{Kind: Arr, Elem: el} }
func M(key string, val *Type) *Type { return &Type{Kind: MapK, Key: key, Elem: val} }

// Bop renders the type in schema syntax.
func (t *Type) Bop() string {
	switch t.Kind {
	case Arr:
		return t.Elem.Bop() + "[]"
	case MapK:
		return "map[" + t.Key + ", " + t.Elem.Bop() + "]"
	}
	return t.Name
}

// ID is a canonical identifier usable in SMT symbols.
func (t *Type) ID() string {
	switch t.Kind {
	case Arr:
		return "arr_" + t.Elem.ID()
	case MapK:
		return "map_" + t.Key + "_" + t.Elem.ID()
	}
	return t.Name
}

// Field of a struct, message or (as a branch) union.
type Field struct {
	Name       string
	Type       *Type
	Index      int      // message / union index
	Deprecated bool     // message fields only
	Tags       []string // tag comments (//[tag(...)]) written before the field: struct tags under the field-tags option
}

// Record kinds.
const (
	Struct  = "struct"
	Message = "message"
	Union   = "union"
)

// Record is one record definition. Union branches are records nested in Branches.
type Record struct {
	Kind     string
	Name     string
	ReadOnly bool
	Fields   []Field
	Branches []*Record // union: branch records, Index in BranchIdx
	BranchIx []int
}

// Enum definition.
type Enum struct {
	Name   string
	Base   string // "" = uint32
	Values []int64
}

// Schema is one generated package: a small group of definitions.
type Schema struct {
	Name    string
	Enums   []*Enum
	Records []*Record // in definition order (dependencies first)
	Reverse bool      // the schema text lists the records last to first (every reference is a forward reference)
	Tags    []string  // what this schema is in the basis for
}

// Options are the generator options (C09).
type Options struct {
	Ptr, Private, Tags, Unsafe, Shared bool
}

func (o Options) String() string {
	b := func(x bool, c byte) byte {
		if x {
			return c
		}
		return '-'
	}
	return string([]byte{b(o.Ptr, 'p'), b(o.Private, 'v'), b(o.Tags, 't'), b(o.Unsafe, 'u'), b(o.Shared, 's')})
}

// Suffix is a directory-safe rendering.
func (o Options) Suffix() string {
	return strings.ReplaceAll(o.String(), "-", "0")
}

// AllRecords lists records including union branches, dependencies first.
func (s *Schema) AllRecords() []*Record {
	var out []*Record
	for _, r := range s.Records {
		if r.Kind == Union {
			out = append(out, r.Branches...)
		}
		out = append(out, r)
	}
	return out
}

func (s *Schema) record(name string) *Record {
	for _, r := range s.AllRecords() {
		if r.Name == name {
			return r
		}
	}
	return nil
}

func (s *Schema) enum(name string) *Enum {
	for _, e := range s.Enums {
		if e.Name == name {
			return e
		}
	}
	return nil
}

// Bop renders the schema text.
func (s *Schema) Bop() string {
	var sb strings.Builder
	for _, e := range s.Enums {
		if e.Base != "" {
			fmt.Fprintf(&sb, "enum %s : %s {\n", e.Name, e.Base)
		} else {
			fmt.Fprintf(&sb, "enum %s {\n", e.Name)
		}
		for i, v := range e.Values {
			fmt.Fprintf(&sb, "    V%d = %d;\n", i, v)
		}
		sb.WriteString("}\n\n")
	}
	recs := s.Records
	if s.Reverse {
		recs = nil
		for i := len(s.Records) - 1; i >= 0; i-- {
			recs = append(recs, s.Records[i])
		}
	}
	for _, r := range recs {
		writeRecord(&sb, r, "")
		sb.WriteString("\n")
	}
	return sb.String()
}

func writeRecord(sb *strings.Builder, r *Record, ind string) {
	switch r.Kind {
	case Struct:
		ro := ""
		if r.ReadOnly {
			ro = "readonly "
		}
		fmt.Fprintf(sb, "%s%sstruct %s {\n", ind, ro, r.Name)
		for _, f := range r.Fields {
			for _, t := range f.Tags {
				fmt.Fprintf(sb, "%s    //[tag(%s)]\n", ind, t)
			}
			fmt.Fprintf(sb, "%s    %s %s;\n", ind, f.Type.Bop(), f.Name)
		}
		fmt.Fprintf(sb, "%s}\n", ind)
	case Message:
		fmt.Fprintf(sb, "%smessage %s {\n", ind, r.Name)
		for _, f := range r.Fields {
			for _, t := range f.Tags {
				fmt.Fprintf(sb, "%s    //[tag(%s)]\n", ind, t)
			}
			if f.Deprecated {
				fmt.Fprintf(sb, "%s    [deprecated(\"old\")]\n", ind)
			}
			fmt.Fprintf(sb, "%s    %d -> %s %s;\n", ind, f.Index, f.Type.Bop(), f.Name)
		}
		fmt.Fprintf(sb, "%s}\n", ind)
	case Union:
		fmt.Fprintf(sb, "%sunion %s {\n", ind, r.Name)
		for i, b := range r.Branches {
			fmt.Fprintf(sb, "%s    %d -> ", ind, r.BranchIx[i])
			var inner strings.Builder
			writeRecord(&inner, b, ind+"    ")
			sb.WriteString(strings.TrimLeft(inner.String(), " "))
		}
		fmt.Fprintf(sb, "%s}\n", ind)
	}
}

// ---- Go-side naming (what the generator is expected to emit) ---------------

func expose(name string, o Options) string {
	if name == "" {
		return name
	}
	if o.Private {
		return strings.ToLower(name[:1]) + name[1:]
	}
	return strings.ToUpper(name[:1]) + name[1:]
}

// GoTypeName of a record / enum under the options.
func GoTypeName(name string, o Options) string { return expose(name, o) }

// GoFieldName of a field in record r.
func GoFieldName(r *Record, f string, o Options) string {
	if r.ReadOnly {
		return strings.ToLower(f[:1]) + f[1:]
	}
	return expose(f, o)
}

// GoType renders the Go type the generator is expected to use.
func (t *Type) GoType(o Options) string {
	switch t.Kind {
	case Prim:
		switch t.Name {
		case "guid":
			return "[16]byte"
		case "date":
			return "time.Time"
		}
		return t.Name
	case EnumK, Rec:
		return expose(t.Name, o)
	case Arr:
		return "[]" + t.Elem.GoType(o)
	case MapK:
		k := t.Key
		if k == "guid" {
			k = "[16]byte"
		} else if k == "date" {
			k = "time.Time"
		}
		return "map[" + k + "]" + t.Elem.GoType(o)
	}
	return "?"
}

// FixedSize returns the wire size of fixed-size primitives / enums, 0 otherwise.
func (s *Schema) FixedSize(t *Type) int {
	switch t.Kind {
	case Prim:
		return primSize[t.Name]
	case EnumK:
		if e := s.enum(t.Name); e != nil {
			if e.Base == "" {
				return 4
			}
			return primSize[e.Base]
		}
	}
	return 0
}

var primSize = map[string]int{"bool": 1, "byte": 1, "uint8": 1, "uint16": 2, "int16": 2, "uint32": 4, "int32": 4,
	"uint64": 8, "int64": 8, "float32": 4, "float64": 8, "guid": 16, "date": 8}

// Prims in a fixed order.
var Prims = []string{"bool", "byte", "uint8", "uint16", "int16", "uint32", "int32", "uint64", "int64", "float32", "float64", "string", "guid", "date"}

// ---- enumeration ---------------------------------------------------------------

// Enumerate returns the schema basis for a tier.
func Enumerate(tier string, seed int64) []*Schema {
	var out []*Schema
	add := func(s *Schema, tags ...string) {
		s.Tags = tags
		out = append(out, s)
	}
	st := func(name string, fs ...Field) *Record { return &Record{Kind: Struct, Name: name, Fields: fs} }
	msg := func(name string, fs ...Field) *Record {
		for i := range fs {
			if fs[i].Index == 0 {
				// sparse on purpose (1, 3, 4, 6, 7, ...): an index is wire data, not a position
				fs[i].Index = i + 1 + (i+1)/2
			}
		}
		return &Record{Kind: Message, Name: name, Fields: fs}
	}
	fd := func(name string, t *Type) Field { return Field{Name: name, Type: t} }

	// 0. an all-fixed-width struct wider than one byte can count (sizes folded into constants must not wrap)
	var big []Field
	for i := 0; i < 20; i++ {
		big = append(big, fd(fmt.Sprintf("g%d", i), P("guid")))
	}
	add(&Schema{Name: "sbig", Records: []*Record{st("Sb", big...)}}, "prims", "wide")
	// 0b. every primitive except date (the round-trip clauses are not stated for dates, see specgen rtOK)
	var nodate []Field
	for i, p := range Prims {
		if p != "date" {
			nodate = append(nodate, fd(fmt.Sprintf("f%d", i), P(p)))
		}
	}
	add(&Schema{Name: "sprimsnd", Records: []*Record{st("Spn", append(nodate, fd("z", P("uint16")))...)}}, "prims")
	// 1. every primitive as a struct field, followed by a sentinel (something must follow, cf. C04)
	var allp []Field
	for i, p := range Prims {
		allp = append(allp, fd(fmt.Sprintf("f%d", i), P(p)))
	}
	add(&Schema{Name: "sprims", Records: []*Record{st("Sp", allp...)}}, "prims", "struct")
	// 2. every primitive as a message field (small messages keep the queries small)
	for i := 0; i < len(Prims); i += 4 {
		var fs []Field
		for j := i; j < i+4 && j < len(Prims); j++ {
			fs = append(fs, fd(fmt.Sprintf("f%d", j), P(Prims[j])))
		}
		add(&Schema{Name: fmt.Sprintf("mprims%d", i/4), Records: []*Record{msg("Mp", fs...)}}, "prims", "message")
	}
	// 3. arrays of every primitive in a struct (pairs keep the functions small)
	for i := 0; i < len(Prims); i += 4 {
		var fs []Field
		for j := i; j < i+4 && j < len(Prims); j++ {
			fs = append(fs, fd(fmt.Sprintf("a%d", j), A(P(Prims[j]))))
		}
		fs = append(fs, fd("z", P("uint16")))
		add(&Schema{Name: fmt.Sprintf("sarr%d", i/4), Records: []*Record{st("Sa", fs...)}}, "arrays", "struct")
	}
	// 4. strings and nested arrays
	add(&Schema{Name: "snest", Records: []*Record{st("Sn", fd("a", A(A(P("string")))), fd("b", A(A(P("int32")))), fd("z", P("bool")))}}, "nested-arrays")
	// 5. nested records: struct in struct, array of struct, struct of message
	// records whose variable size comes only through a nested record (no string or array of their own)
	add(&Schema{Name: "srec2", Records: []*Record{
		st("Label", fd("text", P("string"))),
		st("Tagged", fd("label", R("Label")), fd("weight", P("uint16"))),
		st("Parcel", fd("tag", R("Tagged")), fd("count", P("uint32"))),
		st("Shipment", fd("tags", A(R("Tagged"))), fd("id", P("uint32")))}}, "records", "struct")
	add(&Schema{Name: "srec", Records: []*Record{
		st("Inner", fd("x", P("int32")), fd("s", P("string"))),
		st("Outer", fd("a", R("Inner")), fd("b", A(R("Inner"))), fd("z", P("uint8"))),
	}}, "nested-records")
	// 5a. forward references three levels deep: the text lists Route, Leg, Stop, Pos (the generator's
	// size bookkeeping must reach a fixed point over definitions that come later in the file)
	add(&Schema{Name: "sfwd", Reverse: true, Records: []*Record{
		st("Pos", fd("lat", P("float64")), fd("lon", P("float64"))),
		st("Stop", fd("at", R("Pos"))),
		st("Leg", fd("from", R("Stop")), fd("to", R("Stop"))),
		st("Route", fd("legs", A(R("Leg"))), fd("id", P("uint32")))}}, "records", "struct", "forward-refs")
	// 5b. a record that ends in an empty record (its decoder's last call reads nothing), and an empty message
	// (five bytes on the wire: length prefix and terminator) alone, in a struct and in a message
	add(&Schema{Name: "stail", Records: []*Record{st("E1"), st("Tl", fd("id", P("int32")), fd("name", P("string")), fd("end", R("E1")))}}, "empty", "struct")
	add(&Schema{Name: "mempty", Records: []*Record{msg("Em"), st("Hm", fd("e", R("Em")), fd("after", P("uint32"))), msg("Mo", fd("e", R("Em")), fd("z", P("uint16")))}}, "empty", "message")
	// 6. empty and readonly structs
	add(&Schema{Name: "sempty", Records: []*Record{st("E0"), {Kind: Struct, Name: "Ro", ReadOnly: true, Fields: []Field{fd("a", P("int64")), fd("b", P("string"))}},
		st("Holder", fd("e", R("E0")), fd("es", A(R("E0"))), fd("r", R("Ro")))}}, "empty", "readonly")
	// 7. enums over each base type
	enumBases := []string{"", "byte", "uint8", "uint16", "int16", "uint32", "int32", "uint64", "int64"}
	var ens []*Enum
	var efs []Field
	for i, b := range enumBases {
		name := fmt.Sprintf("En%d", i)
		ens = append(ens, &Enum{Name: name, Base: b, Values: []int64{1, 2}})
		efs = append(efs, fd(fmt.Sprintf("e%d", i), E(name)))
	}
	add(&Schema{Name: "senum", Enums: ens, Records: []*Record{st("Se", efs...)}}, "enums")
	// 7b. arrays of enums (default, two-byte and eight-byte base; a one-byte base would share the byte heap of the
	// model with the destination buffer and need the no-alias treatment of byte arrays): the generator counts them in a loop
	// although their width is fixed
	add(&Schema{Name: "senarr", Enums: []*Enum{{Name: "Ea", Base: "", Values: []int64{1, 2}}, {Name: "Eb", Base: "uint16", Values: []int64{1, 2}}, {Name: "Ec", Base: "int64", Values: []int64{1, 2}}},
		Records: []*Record{st("Sea", fd("a", A(E("Ea"))), fd("b", A(E("Eb"))), fd("c", A(E("Ec"))), fd("z", P("uint8")))}}, "enums", "arrays")
	add(&Schema{Name: "menarr", Enums: []*Enum{{Name: "Ed", Base: "int64", Values: []int64{1, 2}}},
		Records: []*Record{msg("Mea", fd("c", A(E("Ed"))), fd("z", P("uint16")))}}, "enums", "arrays", "message")
	// 8. messages: arrays, nested message, deprecated field, something following
	add(&Schema{Name: "mmix", Records: []*Record{
		msg("Leaf", fd("x", P("int32")), fd("s", P("string"))),
		msg("Mm", fd("a", A(P("string"))), Field{Name: "old", Type: P("int32"), Deprecated: true}, fd("l", R("Leaf")), fd("ls", A(R("Leaf"))), fd("z", P("uint64"))),
		st("Wrap", fd("m", R("Mm")), fd("after", P("uint32"))),
	}}, "message", "deprecated", "nested-records")
	// 9. unions
	add(&Schema{Name: "uni", Records: []*Record{
		{Kind: Union, Name: "U", BranchIx: []int{1, 2, 3}, Branches: []*Record{
			st("Ua", fd("x", P("int32")), fd("s", P("string"))),
			msg("Ub", fd("y", P("float64")), fd("t", A(P("byte")))),
			st("Uc"),
		}},
		st("Uw", fd("U", R("U")), fd("us", A(R("U"))), fd("after", P("uint32"))),
	}}, "union")
	// 10. maps
	add(&Schema{Name: "smap", Records: []*Record{st("Sm",
		fd("a", M("string", P("int32"))), fd("b", M("uint32", P("string"))), fd("c", M("bool", A(P("int16")))), fd("z", P("byte")))}}, "maps")
	add(&Schema{Name: "smap2", Records: []*Record{
		st("Mv", fd("x", P("int32"))),
		st("Sm2", fd("a", M("guid", R("Mv"))), fd("b", M("int64", M("string", P("bool")))), fd("c", A(M("uint16", P("uint16")))), fd("z", P("byte")))}}, "maps", "nested-maps")
	// 10b. maps in a message (the stream decoder of message fields has its own map branch) and a map whose key
	// and value both have a variable size (found unreached by cmd/basiscov)
	add(&Schema{Name: "mmap", Records: []*Record{
		msg("Mq", fd("a", M("string", P("string"))), fd("b", M("uint32", A(P("int16")))), fd("z", P("uint8"))),
		st("Sq", fd("d", M("string", P("string"))), fd("z", P("byte")))}}, "maps", "message")
	if tier == "thorough" {
		// maps keyed by every primitive
		for i, k := range Prims {
			add(&Schema{Name: fmt.Sprintf("mkey%d", i), Records: []*Record{st("Mk", fd("m", M(k, P(Prims[(i+3)%len(Prims)]))), fd("z", P("byte")))}}, "maps", "map-keys")
		}
		// arrays of arrays of every primitive, and arrays in messages
		for i, p := range Prims {
			add(&Schema{Name: fmt.Sprintf("deep%d", i), Records: []*Record{
				msg("Dm", fd("a", A(A(P(p)))), fd("b", A(P(p))), fd("z", P("bool")))}}, "nested-arrays", "message")
		}
	}
	// tag comments, so that the field-tags option has something to act on (cmd/basiscov showed the tag writer
	// unreached): every field of the records of these schemas, union branches included
	for _, sc := range out {
		if sc.Name == "srec" || sc.Name == "mmix" || sc.Name == "uni" {
			for _, r := range sc.AllRecords() {
				for i := range r.Fields {
					r.Fields[i].Tags = []string{fmt.Sprintf("json:%q", r.Fields[i].Name+",omitempty"), "boolean"}
				}
			}
		}
	}
	sort.SliceStable(out, func(i, j int) bool { return false })
	return out
}

// OptionSets returns the option combinations for a tier: all 32 when thorough,
// a pairwise-covering set of 6 (rotated by seed) when quick.
func OptionSets(tier string, seed int64) []Options {
	if tier == "thorough" {
		var out []Options
		for m := 0; m < 32; m++ {
			out = append(out, Options{m&1 != 0, m&2 != 0, m&4 != 0, m&8 != 0, m&16 != 0})
		}
		return out
	}
	// pairwise covering array for 5 binary factors (6 rows)
	rows := [][5]bool{
		{false, false, false, false, false},
		{true, true, true, true, true},
		{true, false, false, true, false},
		{true, false, true, false, true},
		{false, true, true, false, false},
		{false, true, false, true, true},
	}
	rot := int(seed % 5)
	if rot < 0 {
		rot = -rot
	}
	var out []Options
	for _, r := range rows {
		var x [5]bool
		for i := 0; i < 5; i++ {
			x[(i+rot)%5] = r[i]
		}
		out = append(out, Options{x[0], x[1], x[2], x[3], x[4]})
	}
	return out
}
