package basis

import (
	"encoding/json"
	"fmt"
	"os"
	"os/exec"
	"path/filepath"
)

// Job is one (schema, options) pair to generate.
type Job struct {
	Schema  *Schema `json:"-"`
	Opts    Options `json:"-"`
	Name    string  `json:"name"`
	BopPath string  `json:"bop"`
	OutPath string  `json:"out"`
	Pkg     string  `json:"pkg"`
	Ptr     bool    `json:"ptr"`
	Private bool    `json:"private"`
	Tags    bool    `json:"tags"`
	Unsafe  bool    `json:"unsafe"`
	Shared  bool    `json:"shared"`
	// results
	ReadErr string `json:"read_err"`
	GenErr  string `json:"gen_err"`
	Dir     string `json:"-"`
}

const driverSrc = `package main

import (
	"encoding/json"
	"fmt"
	"os"

	"github.com/200sc/bebop"
)

type job struct {
	Name    string ` + "`json:\"name\"`" + `
	BopPath string ` + "`json:\"bop\"`" + `
	OutPath string ` + "`json:\"out\"`" + `
	Pkg     string ` + "`json:\"pkg\"`" + `
	Ptr     bool   ` + "`json:\"ptr\"`" + `
	Private bool   ` + "`json:\"private\"`" + `
	Tags    bool   ` + "`json:\"tags\"`" + `
	Unsafe  bool   ` + "`json:\"unsafe\"`" + `
	Shared  bool   ` + "`json:\"shared\"`" + `
	ReadErr string ` + "`json:\"read_err\"`" + `
	GenErr  string ` + "`json:\"gen_err\"`" + `
}

func run(j *job) {
	defer func() {
		if r := recover(); r != nil {
			j.GenErr = fmt.Sprint("panic: ", r)
		}
	}()
	f, err := os.Open(j.BopPath)
	if err != nil {
		j.ReadErr = err.Error()
		return
	}
	defer f.Close()
	bf, _, err := bebop.ReadFile(f)
	if err != nil {
		j.ReadErr = err.Error()
		return
	}
	bf.FileName = j.BopPath
	out, err := os.Create(j.OutPath)
	if err != nil {
		j.GenErr = err.Error()
		return
	}
	defer out.Close()
	err = bf.Generate(out, bebop.GenerateSettings{
		PackageName:               j.Pkg,
		GenerateUnsafeMethods:     j.Unsafe,
		SharedMemoryStrings:       j.Shared,
		GenerateFieldTags:         j.Tags,
		PrivateDefinitions:        j.Private,
		AlwaysUsePointerReceivers: j.Ptr,
	})
	if err != nil {
		j.GenErr = err.Error()
	}
}

func main() {
	b, err := os.ReadFile(os.Args[1])
	if err != nil {
		panic(err)
	}
	var jobs []*job
	if err := json.Unmarshal(b, &jobs); err != nil {
		panic(err)
	}
	for _, j := range jobs {
		run(j)
	}
	b, _ = json.Marshal(jobs)
	if err := os.WriteFile(os.Args[2], b, 0o644); err != nil {
		panic(err)
	}
}
`

func goEnv() []string {
	return append(os.Environ(), "GOFLAGS=-mod=mod", "GOPROXY=off", "GOSUMDB=off", "GOTOOLCHAIN=local")
}

// Generate writes a temporary module under dir that depends on repo via a
// replace directive, runs the repository's own ReadFile+Generate on every job
// and returns the jobs with their results. Generated packages live in
// dir/gen/<schema>_<opts>/.
// Pair, when set, restricts the (schema, options) pairs that are generated (nil: the full product).
var Pair func(s *Schema, o Options) bool

// CoverDir, when set, builds the driver with statement coverage of the repository's package and
// leaves the counters there (cmd/basiscov: which generator statements does the basis reach?).
var CoverDir string

func Generate(dir, repo string, schemas []*Schema, opts []Options) ([]*Job, error) {
	gomod := "module vbasis\n\ngo 1.21\n\nrequire github.com/200sc/bebop v0.0.0\n\nreplace github.com/200sc/bebop => " + repo + "\n"
	if err := os.WriteFile(filepath.Join(dir, "go.mod"), []byte(gomod), 0o644); err != nil {
		return nil, err
	}
	if b, err := os.ReadFile(filepath.Join(repo, "go.sum")); err == nil {
		_ = os.WriteFile(filepath.Join(dir, "go.sum"), b, 0o644)
	}
	for _, d := range []string{"drv", "schemas", "gen"} {
		if err := os.MkdirAll(filepath.Join(dir, d), 0o755); err != nil {
			return nil, err
		}
	}
	if err := os.WriteFile(filepath.Join(dir, "drv", "main.go"), []byte(driverSrc), 0o644); err != nil {
		return nil, err
	}
	var jobs []*Job
	for _, s := range schemas {
		bp := filepath.Join(dir, "schemas", s.Name+".bop")
		if err := os.WriteFile(bp, []byte(s.Bop()), 0o644); err != nil {
			return nil, err
		}
		for _, o := range opts {
			if Pair != nil && !Pair(s, o) {
				continue
			}
			name := s.Name + "_" + o.Suffix()
			pd := filepath.Join(dir, "gen", name)
			if err := os.MkdirAll(pd, 0o755); err != nil {
				return nil, err
			}
			jobs = append(jobs, &Job{Schema: s, Opts: o, Name: name, BopPath: bp, OutPath: filepath.Join(pd, s.Name+".go"), Pkg: s.Name,
				Ptr: o.Ptr, Private: o.Private, Tags: o.Tags, Unsafe: o.Unsafe, Shared: o.Shared, Dir: pd})
		}
	}
	jb, _ := json.Marshal(jobs)
	jp := filepath.Join(dir, "jobs.json")
	rp := filepath.Join(dir, "results.json")
	if err := os.WriteFile(jp, jb, 0o644); err != nil {
		return nil, err
	}
	cmd := exec.Command("go", "run", "./drv", jp, rp)
	cmd.Dir = dir
	cmd.Env = goEnv()
	if CoverDir != "" {
		cmd = exec.Command("go", "run", "-cover", "-coverpkg=github.com/200sc/bebop,vbasis/drv", "./drv", jp, rp)
		cmd.Dir = dir
		cmd.Env = append(goEnv(), "GOCOVERDIR="+CoverDir)
	}
	if out, err := cmd.CombinedOutput(); err != nil {
		return nil, fmt.Errorf("basis driver failed (the repository does not build?): %v\n%s", err, out)
	}
	rb, err := os.ReadFile(rp)
	if err != nil {
		return nil, err
	}
	var res []*Job
	if err := json.Unmarshal(rb, &res); err != nil {
		return nil, err
	}
	for i := range jobs {
		jobs[i].ReadErr, jobs[i].GenErr = res[i].ReadErr, res[i].GenErr
	}
	return jobs, nil
}
