package basis

import (
	"fmt"
	"go/types"
	"os"
	"path/filepath"
	"sort"
	"strings"

	"gocv/internal/vc"
)

// SpecGen derives, for one generated package, the reference wire functions
// (SMT) and the contracts of the generated methods from the schema description.
type SpecGen struct {
	e     *vc.Engine
	job   *Job
	s     *Schema
	o     Options
	pkg   *types.Package
	pfx   string
	heaps [][2]string
	hidx  map[string]int
	used  map[string]*Type
	order []string
	ctr   strings.Builder
	smt   strings.Builder
	// Classes requested
	Want map[string]bool
	Errs []string
}

// PkgPath of a job's generated package.
func (j *Job) PkgPath() string { return "vbasis/gen/" + j.Name }

func NewSpecGen(e *vc.Engine, j *Job) *SpecGen {
	return &SpecGen{e: e, job: j, s: j.Schema, o: j.Opts, pkg: e.TypesPkg(j.PkgPath()), pfx: j.Name,
		hidx: map[string]int{}, used: map[string]*Type{}, Want: map[string]bool{}}
}

func (g *SpecGen) errf(format string, a ...interface{}) {
	g.Errs = append(g.Errs, fmt.Sprintf(format, a...))
}

// goType resolves the Go type the generated package uses for a basis type.
func (g *SpecGen) goType(t *Type) types.Type {
	switch t.Kind {
	case Prim:
		switch t.Name {
		case "guid":
			return types.NewArray(types.Typ[types.Uint8], 16)
		case "date":
			for _, p := range g.e.Prog.AllPackages() {
				if p.Pkg.Path() == "time" {
					return p.Pkg.Scope().Lookup("Time").Type()
				}
			}
			return nil
		case "byte":
			return types.Typ[types.Uint8]
		}
		if o := types.Universe.Lookup(t.Name); o != nil {
			return o.Type()
		}
	case EnumK, Rec:
		if o := g.pkg.Scope().Lookup(GoTypeName(t.Name, g.o)); o != nil {
			return o.Type()
		}
		return nil
	case Arr:
		if et := g.goType(t.Elem); et != nil {
			return types.NewSlice(et)
		}
	case MapK:
		kt := g.goType(P(t.Key))
		vt := g.goType(t.Elem)
		if kt != nil && vt != nil {
			return types.NewMap(kt, vt)
		}
	}
	return nil
}

// baseOf returns the primitive a type is encoded as (enums: their base).
func (g *SpecGen) baseOf(t *Type) string {
	if t.Kind == EnumK {
		if e := g.s.enum(t.Name); e != nil {
			if e.Base == "" {
				return "uint32"
			}
			return e.Base
		}
	}
	return t.Name
}

// collect registers every type used (children first).
func (g *SpecGen) collect(t *Type) {
	if t.Elem != nil {
		g.collect(t.Elem)
	}
	if t.Kind == MapK {
		g.collect(P(t.Key))
	}
	id := t.ID()
	if _, ok := g.used[id]; !ok {
		g.used[id] = t
		g.order = append(g.order, id)
	}
}

func (g *SpecGen) fn(kind, id string) string { return kind + "_" + g.pfx + "_" + id }

// flat returns the SMT sorts of the flattened value of t.
func (g *SpecGen) flat(t *Type) []string {
	switch t.Kind {
	case Prim, EnumK:
		switch g.baseOf(t) {
		case "bool":
			return []string{"Bool"}
		case "string":
			return []string{"Str"}
		case "guid":
			return []string{"(Array Int Int)"}
		case "date":
			return []string{"Int", "Int", "Loc"}
		}
		return []string{"Int"}
	case Arr:
		return []string{"Slice"}
	case MapK:
		return []string{"Int"}
	case Rec:
		r := g.s.record(t.Name)
		var out []string
		switch r.Kind {
		case Struct:
			for _, f := range r.Fields {
				out = append(out, g.flat(f.Type)...)
			}
		case Message:
			for range r.Fields {
				out = append(out, "Loc")
			}
		case Union:
			for range r.Branches {
				out = append(out, "Loc")
			}
		}
		return out
	}
	return nil
}

func (g *SpecGen) hp() string {
	var ps []string
	for i, h := range g.heaps {
		ps = append(ps, fmt.Sprintf("(h%d %s)", i, h[1]))
	}
	return strings.Join(ps, " ")
}

func (g *SpecGen) ha() string {
	var ps []string
	for i := range g.heaps {
		ps = append(ps, fmt.Sprintf("h%d", i))
	}
	return strings.Join(ps, " ")
}

func (g *SpecGen) h(key string) string {
	i, ok := g.hidx[key]
	if !ok {
		g.errf("heap map %s is not in the bundle", key)
		return "h0"
	}
	return fmt.Sprintf("h%d", i)
}

func vars(prefix string, sorts []string) (decl string, args []string) {
	var ds []string
	for i, s := range sorts {
		n := fmt.Sprintf("%s%d", prefix, i)
		ds = append(ds, fmt.Sprintf("(%s %s)", n, s))
		args = append(args, n)
	}
	return strings.Join(ds, " "), args
}

// loadAt returns the flattened components of a value of type t stored at heap location loc.
func (g *SpecGen) loadAt(t *Type, loc string) []string {
	gt := g.goType(t)
	if gt == nil {
		g.errf("no Go type for %s", t.ID())
		return []string{"0"}
	}
	return g.loadGo(gt, nil, nil, loc)
}

func (g *SpecGen) loadGo(t types.Type, root types.Type, names []string, loc string) []string {
	if st, ok := t.Underlying().(*types.Struct); ok {
		if root == nil {
			root = t
			names = nil
		}
		var out []string
		for i := 0; i < st.NumFields(); i++ {
			out = append(out, g.loadGo(st.Field(i).Type(), root, append(append([]string(nil), names...), st.Field(i).Name()), loc)...)
		}
		return out
	}
	var key string
	if root != nil {
		key = vc.FieldMapKey(root, names)
	} else {
		key = vc.ElemMapKey(t)
	}
	return []string{fmt.Sprintf("(select %s %s)", g.h(key), loc)}
}

func toU(x string, bits int) string {
	return fmt.Sprintf("(ite (< %s 0) (+ %s %s) %s)", x, x, pow2s[bits], x)
}

var pow2s = map[int]string{8: "256", 16: "65536", 32: "4294967296", 64: "18446744073709551616"}

// encTerm is the reference encoding of a value (flattened components c) of type t appended to trace tr.
func (g *SpecGen) encTerm(t *Type, tr string, c []string) string {
	switch t.Kind {
	case Prim, EnumK:
		switch g.baseOf(t) {
		case "bool":
			return fmt.Sprintf("(snoc %s (ite %s 1 0))", tr, c[0])
		case "byte", "uint8":
			return fmt.Sprintf("(snoc %s %s)", tr, c[0])
		case "uint16":
			return fmt.Sprintf("(Ew2 %s %s)", tr, c[0])
		case "int16":
			return fmt.Sprintf("(Ew2 %s %s)", tr, toU(c[0], 16))
		case "uint32", "float32":
			return fmt.Sprintf("(Ew4 %s %s)", tr, c[0])
		case "int32":
			return fmt.Sprintf("(Ew4 %s %s)", tr, toU(c[0], 32))
		case "uint64", "float64":
			return fmt.Sprintf("(Ew8 %s %s)", tr, c[0])
		case "int64":
			return fmt.Sprintf("(Ew8 %s %s)", tr, toU(c[0], 64))
		case "string":
			return fmt.Sprintf("(tr.str (Ew4 %s (u32w (slen %s))) %s (slen %s))", tr, c[0], c[0], c[0])
		case "guid":
			return fmt.Sprintf("(Eguid %s %s)", tr, c[0])
		case "date":
			return fmt.Sprintf("(Ew8 %s (let ((tk (dateTicks %s %s %s))) %s))", tr, c[0], c[1], c[2], toU("tk", 64))
		}
	case Arr, Rec, MapK:
		return fmt.Sprintf("(%s %s %s %s)", g.fn("enc", t.ID()), g.ha(), tr, strings.Join(c, " "))
	}
	g.errf("encTerm: unsupported type %s", t.ID())
	return tr
}

func (g *SpecGen) sizeTerm(t *Type, c []string) string {
	if n := g.s.FixedSize(t); n > 0 {
		return fmt.Sprint(n)
	}
	if t.Kind == Prim && t.Name == "string" {
		return fmt.Sprintf("(+ 4 (slen %s))", c[0])
	}
	return fmt.Sprintf("(%s %s %s)", g.fn("size", t.ID()), g.ha(), strings.Join(c, " "))
}

func isByteT(t *Type) bool { return t.Kind == Prim && (t.Name == "byte" || t.Name == "uint8") }

// emitSMT writes the definitional axioms of the reference functions.
func (g *SpecGen) emitSMT() {
	w := &g.smt
	HP, HA := g.hp(), g.ha()
	// a well-formed heap holds well-formed slices everywhere
	var wfc []string
	for i, h := range g.heaps {
		if h[1] == "(Array Loc Slice)" {
			wfc = append(wfc, fmt.Sprintf("(forall ((k Loc)) (! (wf-slice (select h%d k)) :pattern ((select h%d k))))", i, i))
		}
	}
	if len(wfc) == 0 {
		wfc = append(wfc, "true")
	}
	fmt.Fprintf(w, "(define-fun %s (%s) Bool (and %s true))\n", g.fn("wfHs", ""), HP, strings.Join(wfc, " "))
	for _, id := range g.order {
		t := g.used[id]
		if t.Kind == MapK {
			g.errf("maps are not yet covered by the reference functions (%s)", id)
			continue
		}
		decl, c := vars("c", g.flat(t))
		encF, sizeF := g.fn("enc", id), g.fn("size", id)
		ca := strings.Join(c, " ")
		switch t.Kind {
		case Prim, EnumK:
			fmt.Fprintf(w, "(assert (forall (%s (t Tr) %s) (! (= (%s %s t %s) %s) :pattern ((%s %s t %s)))))\n", HP, decl, encF, HA, ca, g.encTerm(t, "t", c), encF, HA, ca)
			fmt.Fprintf(w, "(assert (forall (%s %s) (! (= (%s %s %s) %s) :pattern ((%s %s %s)))))\n", HP, decl, sizeF, HA, ca, g.sizeTerm(t, c), sizeF, HA, ca)
		case Arr:
			s := c[0]
			if isByteT(t.Elem) {
				fmt.Fprintf(w, "(assert (forall (%s (t Tr) %s) (! (= (%s %s t %s) (tr.raw (Ew4 t (u32w (s-len %s))) %s (s-loc %s) (s-len %s))) :pattern ((%s %s t %s)))))\n",
					HP, decl, encF, HA, s, s, g.h("E$uint8"), s, s, encF, HA, s)
				fmt.Fprintf(w, "(assert (forall (%s %s) (! (= (%s %s %s) (+ 4 (s-len %s))) :pattern ((%s %s %s)))))\n", HP, decl, sizeF, HA, s, s, sizeF, HA, s)
				continue
			}
			encel, sizeel := g.fn("encel", id), g.fn("sizeel", id)
			el := g.loadAt(t.Elem, fmt.Sprintf("(loc+ (s-loc %s) (- i 1))", s))
			fixed := g.s.FixedSize(t.Elem)
			// base and (marker-triggered) unfolding
			fmt.Fprintf(w, "(assert (forall (%s (t Tr) %s) (! (= (%s %s t %s 0) t) :pattern ((%s %s t %s 0)))))\n", HP, decl, encel, HA, s, encel, HA, s)
			fmt.Fprintf(w, "(assert (forall (%s (t Tr) %s (i Int)) (! (=> (> i 0) (= (%s %s t %s i) %s)) :pattern ((UnfT (%s %s t %s i))))))\n",
				HP, decl, encel, HA, s, g.encTerm(t.Elem, fmt.Sprintf("(%s %s t %s (- i 1))", encel, HA, s), el), encel, HA, s)
			if fixed > 0 {
				// fixed-size elements: closed form
				fmt.Fprintf(w, "(assert (forall (%s %s (i Int)) (! (= (%s %s %s i) (* i %d)) :pattern ((%s %s %s i)))))\n", HP, decl, sizeel, HA, s, fixed, sizeel, HA, s)
			} else {
				fmt.Fprintf(w, "(assert (forall (%s %s) (! (= (%s %s %s 0) 0) :pattern ((%s %s %s 0)))))\n", HP, decl, sizeel, HA, s, sizeel, HA, s)
				fmt.Fprintf(w, "(assert (forall (%s %s (i Int)) (! (=> (> i 0) (= (%s %s %s i) (+ (%s %s %s (- i 1)) %s))) :pattern ((UnfI (%s %s %s i))))))\n",
					HP, decl, sizeel, HA, s, sizeel, HA, s, g.sizeTerm(t.Elem, el), sizeel, HA, s)
				// spec-level lemmas about the reference on well-formed heaps (by induction on i; see DESIGN section 8)
				fmt.Fprintf(w, "(assert (forall (%s %s (i Int) (j Int)) (! (=> (and (%s %s) (<= 0 i) (<= i j)) (<= (%s %s %s i) (%s %s %s j))) :pattern ((%s %s %s i) (%s %s %s j)))))\n",
					HP, decl, g.fn("wfHs", ""), HA, sizeel, HA, s, sizeel, HA, s, sizeel, HA, s, sizeel, HA, s)
				fmt.Fprintf(w, "(assert (forall (%s %s (i Int)) (! (=> (and (%s %s) (<= 0 i)) (>= (%s %s %s i) 0)) :pattern ((%s %s %s i)))))\n", HP, decl, g.fn("wfHs", ""), HA, sizeel, HA, s, sizeel, HA, s)
			}
			// whole array
			fmt.Fprintf(w, "(assert (forall (%s (t Tr) %s) (! (= (%s %s t %s) (%s %s (Ew4 t (u32w (s-len %s))) %s (s-len %s))) :pattern ((%s %s t %s)))))\n",
				HP, decl, encF, HA, s, encel, HA, s, s, s, encF, HA, s)
			fmt.Fprintf(w, "(assert (forall (%s %s) (! (= (%s %s %s) (+ 4 (%s %s %s (s-len %s)))) :pattern ((%s %s %s)))))\n", HP, decl, sizeF, HA, s, sizeel, HA, s, s, sizeF, HA, s)
		case Rec:
			r := g.s.record(t.Name)
			encBody, sizeBody := g.recBodies(r, c)
			fmt.Fprintf(w, "(assert (forall (%s (t Tr) %s) (! (= (%s %s t %s) %s) :pattern ((%s %s t %s)))))\n", HP, decl, encF, HA, ca, encBody, encF, HA, ca)
			fmt.Fprintf(w, "(assert (forall (%s %s) (! (= (%s %s %s) %s) :pattern ((%s %s %s)))))\n", HP, decl, sizeF, HA, ca, sizeBody, sizeF, HA, ca)
			var wfs []string
			wfs = append(wfs, fmt.Sprintf("(%s %s)", g.fn("wfHs", ""), HA))
			for i, srt := range g.flat(t) {
				if srt == "Slice" {
					wfs = append(wfs, fmt.Sprintf("(wf-slice %s)", c[i]))
				}
			}
			fmt.Fprintf(w, "(assert (forall (%s %s) (! (=> (and %s) (>= (%s %s %s) 0)) :pattern ((%s %s %s)))))\n", HP, decl, strings.Join(wfs, " "), sizeF, HA, ca, sizeF, HA, ca)
		}
	}
}

func sum(ts []string) string {
	if len(ts) == 0 {
		return "0"
	}
	if len(ts) == 1 {
		return ts[0]
	}
	return "(+ " + strings.Join(ts, " ") + ")"
}

// recBodies returns the SMT bodies of enc and size for a record, over trace "t" and components c.
func (g *SpecGen) recBodies(r *Record, c []string) (enc, size string) {
	switch r.Kind {
	case Struct:
		tr := "t"
		var sizes []string
		k := 0
		for _, f := range r.Fields {
			n := len(g.flat(f.Type))
			fc := c[k : k+n]
			k += n
			tr = g.encTerm(f.Type, tr, fc)
			sizes = append(sizes, g.sizeTerm(f.Type, fc))
		}
		return tr, sum(sizes)
	case Message:
		fs := append([]Field(nil), r.Fields...)
		idx := map[string]int{}
		for i, f := range r.Fields {
			idx[f.Name] = i
		}
		sort.SliceStable(fs, func(i, j int) bool { return fs[i].Index < fs[j].Index })
		self := fmt.Sprintf("(%s %s %s)", g.fn("size", r.Name), g.ha(), strings.Join(c, " "))
		tr := fmt.Sprintf("(Ew4 t (u32w (- %s 4)))", self)
		sizes := []string{"5"}
		for _, f := range fs {
			if f.Deprecated {
				continue
			}
			p := c[idx[f.Name]]
			val := g.loadAt(f.Type, p)
			present := fmt.Sprintf("(not (= %s (mk-loc 0 0)))", p)
			tr = fmt.Sprintf("(ite %s %s %s)", present, g.encTerm(f.Type, fmt.Sprintf("(snoc %s %d)", tr, f.Index), val), tr)
			sizes = append(sizes, fmt.Sprintf("(ite %s (+ 1 %s) 0)", present, g.sizeTerm(f.Type, val)))
		}
		return fmt.Sprintf("(snoc %s 0)", tr), sum(sizes)
	case Union:
		self := fmt.Sprintf("(%s %s %s)", g.fn("size", r.Name), g.ha(), strings.Join(c, " "))
		hdr := fmt.Sprintf("(Ew4 t (u32w (- %s 5)))", self)
		enc, size = hdr, "4"
		type br struct {
			i  int
			ix int
		}
		var bs []br
		for i := range r.Branches {
			bs = append(bs, br{i, r.BranchIx[i]})
		}
		sort.Slice(bs, func(a, b int) bool { return bs[a].ix < bs[b].ix })
		// the first populated member (in discriminator order) wins
		for k := len(bs) - 1; k >= 0; k-- {
			b := r.Branches[bs[k].i]
			p := c[bs[k].i]
			bt := R(b.Name)
			val := g.loadAt(bt, p)
			present := fmt.Sprintf("(not (= %s (mk-loc 0 0)))", p)
			enc = fmt.Sprintf("(ite %s %s %s)", present, g.encTerm(bt, fmt.Sprintf("(snoc %s %d)", hdr, bs[k].ix), val), enc)
			size = fmt.Sprintf("(ite %s (+ 5 %s) %s)", present, g.sizeTerm(bt, val), size)
		}
		return enc, size
	}
	return "t", "0"
}

// ---- contract text ---------------------------------------------------------------

func (g *SpecGen) line(format string, a ...interface{}) {
	fmt.Fprintf(&g.ctr, "//@ "+format+"\n", a...)
}

func (g *SpecGen) encX(t *Type, tr, v string) string {
	return fmt.Sprintf("%s(%s, %s)", g.fn("enc", t.ID()), tr, v)
}
func (g *SpecGen) sizeX(t *Type, v string) string {
	return fmt.Sprintf("%s(%s)", g.fn("size", t.ID()), v)
}

// recv returns "(T)" or "(*T)" for methods with the value/pointer receiver switch.
func (g *SpecGen) recvSwitch(r *Record) string {
	n := GoTypeName(r.Name, g.o)
	if g.o.Ptr {
		return "(*" + n + ")"
	}
	return "(" + n + ")"
}

// V is the expression denoting the record value inside method contracts.
func (g *SpecGen) V(ptrRecv bool) string {
	if ptrRecv {
		return "*bbp"
	}
	return "bbp"
}

func (g *SpecGen) fieldExpr(r *Record, f Field) string {
	return "bbp." + GoFieldName(r, f.Name, g.o)
}

// Generate writes the contract file of the package and registers SMT definitions.
func (g *SpecGen) Generate() error {
	if g.pkg == nil {
		return fmt.Errorf("package %s not loaded", g.job.PkgPath())
	}
	for _, r := range g.s.AllRecords() {
		for _, f := range r.Fields {
			g.collect(f.Type)
		}
		g.collect(R(r.Name))
	}
	// heap bundle: every record type plus every non-record type that can live in the heap
	seen := map[string]bool{}
	var tes []string
	add := func(te string) {
		if !seen[te] {
			seen[te] = true
			tes = append(tes, te)
		}
	}
	add("byte")
	for _, id := range g.order {
		t := g.used[id]
		if t.Kind == Rec {
			add(GoTypeName(t.Name, g.o))
		} else if t.Kind != MapK {
			add(t.GoType(g.o))
		} else {
			add(t.GoType(g.o))
			add("M$dom")
			add("M$len")
		}
	}
	bundle := "H_" + g.pfx
	fmt.Fprintf(&g.ctr, "//go:build verif\n\n// Contracts derived from the schema description %s (options %s) by /verif's spec generator.\npackage %s\n\n", g.s.Name, g.o, g.s.Name)
	g.line("heaps %s: %s", bundle, strings.Join(tes, ", "))
	for _, id := range g.order {
		t := g.used[id]
		gt := t.GoType(g.o)
		g.line("pure func %s(h heap:%s, t Tr, v %s) Tr", g.fn("enc", id), bundle, gt)
		g.line("pure func %s(h heap:%s, v %s) int", g.fn("size", id), bundle, gt)
		if t.Kind == Arr && !isByteT(t.Elem) {
			g.line("pure func %s(h heap:%s, t Tr, s %s, i int) Tr", g.fn("encel", id), bundle, gt)
			g.line("pure func %s(h heap:%s, s %s, i int) int", g.fn("sizeel", id), bundle, gt)
		}
	}
	var wfm []string
	for _, te := range tes {
		if strings.HasPrefix(te, "[]") {
			wfm = append(wfm, fmt.Sprintf("wfslice(mem(%s)[k])", te))
		}
	}
	for _, r := range g.s.AllRecords() {
		if r.Kind != Struct {
			continue
		}
		for _, f := range r.Fields {
			if f.Type.Kind == Arr {
				wfm = append(wfm, fmt.Sprintf("wfslice(mem(%s.%s)[k])", GoTypeName(r.Name, g.o), GoFieldName(r, f.Name, g.o)))
			}
		}
	}
	if len(wfm) == 0 {
		g.line("define %s() bool = true", g.fn("wfH", ""))
	} else {
		g.line("define %s() bool = forall k Loc :: %s", g.fn("wfH", ""), strings.Join(wfm, " && "))
	}
	for _, r := range g.s.AllRecords() {
		g.recordContracts(r)
	}
	path := filepath.Join(g.job.Dir, "verif_contracts.go")
	if err := os.WriteFile(path, []byte(g.ctr.String()), 0o644); err != nil {
		return err
	}
	if err := g.e.AddContractFile(path, g.job.PkgPath()); err != nil {
		return err
	}
	g.heaps = g.e.BundleKeys(bundle)
	for i, h := range g.heaps {
		g.hidx[h[0]] = i
	}
	g.emitSMT()
	g.e.RawSMTLate = append(g.e.RawSMTLate, g.smt.String())
	if len(g.Errs) > 0 {
		return fmt.Errorf("spec generator: %s", strings.Join(g.Errs, "; "))
	}
	return nil
}

// walker state for loops
type walk struct {
	marks []string // unfolding markers of enclosing loops (needed to bound partial sums)
	ord   int
	bytes bool // the record contains byte arrays: carry the frame of the byte heap through loops
}

// hasByteArr reports whether a value of type t can contain a byte array.
func (g *SpecGen) hasByteArr(t *Type, seen map[string]bool) bool {
	switch t.Kind {
	case Arr:
		return isByteT(t.Elem) || g.hasByteArr(t.Elem, seen)
	case MapK:
		return g.hasByteArr(t.Elem, seen)
	case Rec:
		if seen[t.Name] {
			return false
		}
		seen[t.Name] = true
		r := g.s.record(t.Name)
		for _, f := range r.Fields {
			if g.hasByteArr(f.Type, seen) {
				return true
			}
		}
		for _, b := range r.Branches {
			if g.hasByteArr(R(b.Name), seen) {
				return true
			}
		}
	}
	return false
}

const byteFrameInv = "forall k Loc :: allocated(k) && ref(k) != ref(buf) ==> mem(byte)[k] == old(mem(byte))[k]"

func (g *SpecGen) recordContracts(r *Record) {
	g.sizeContract(r)
	g.marshalToContract(r)
	g.marshalContract(r)
}

// presentFields lists message fields in index order, skipping deprecated ones when enc is true.
func msgFields(r *Record, skipDeprecated bool) []Field {
	fs := append([]Field(nil), r.Fields...)
	sort.SliceStable(fs, func(i, j int) bool { return fs[i].Index < fs[j].Index })
	var out []Field
	for _, f := range fs {
		if skipDeprecated && f.Deprecated {
			continue
		}
		out = append(out, f)
	}
	return out
}

func (g *SpecGen) sizeContract(r *Record) {
	n := GoTypeName(r.Name, g.o)
	V := g.V(g.o.Ptr)
	g.line("func %s.Size", g.recvSwitch(r))
	g.line("  requires %s()", g.fn("wfH", ""))
	g.line("  requires %s <= 4611686018427387904", g.sizeX(R(r.Name), V))
	g.line("  ensures result == old(%s)", g.sizeX(R(r.Name), V))
	w := &walk{ord: 1}
	switch r.Kind {
	case Struct:
		pre := "0"
		for _, f := range r.Fields {
			v := g.fieldExpr(r, f)
			g.walkSize(f.Type, v, pre, w)
			pre = pre + " + " + g.sizeX(f.Type, v)
		}
	case Message:
		pre := "5"
		for _, f := range msgFields(r, true) {
			v := "*" + g.fieldExpr(r, f)
			g.walkSize(f.Type, v, pre+" + 1", w)
			pre = fmt.Sprintf("%s + ite(%s != nil, 1 + %s, 0)", pre, g.fieldExpr(r, f), g.sizeX(f.Type, v))
		}
	case Union:
		for i, b := range r.Branches {
			_ = i
			v := "*bbp." + GoFieldName(r, b.Name, g.o)
			g.walkSize(R(b.Name), v, "4 + 1", w)
		}
	}
	_ = n
}

// walkSize emits the loop invariants of Size() for one field value.
func (g *SpecGen) walkSize(t *Type, v, pre string, w *walk) {
	if t.Kind != Arr || g.s.FixedSize(t.Elem) > 0 {
		return
	}
	k := w.ord
	w.ord++
	sz := fmt.Sprintf("oh(%s(ranged(%d), it(%d)))", g.fn("sizeel", t.ID()), k, k)
	szNext := fmt.Sprintf("oh(%s(ranged(%d), it(%d) + 1))", g.fn("sizeel", t.ID()), k, k)
	g.line("  invariant loop %d: ranged(%d) == %s", k, k, v)
	g.line("  invariant loop %d: bodyLen == %s + 4 + %s && UnfI(%s)", k, pre, sz, sz)
	for _, m := range w.marks {
		g.line("  invariant loop %d: %s", k, m)
	}
	saved := w.marks
	w.marks = append(append([]string(nil), w.marks...), fmt.Sprintf("UnfI(%s)", szNext))
	g.walkSize(t.Elem, fmt.Sprintf("ranged(%d)[it(%d)]", k, k), fmt.Sprintf("%s + 4 + %s", pre, sz), w)
	w.marks = saved
}

func (g *SpecGen) marshalToContract(r *Record) {
	V := g.V(g.o.Ptr)
	self := R(r.Name)
	g.line("func %s.MarshalBebopTo", g.recvSwitch(r))
	g.line("  requires %s()", g.fn("wfH", ""))
	g.line("  requires len(buf) >= %s && hw(buf) == off(buf)", g.sizeX(self, V))
	hasB := g.hasByteArr(self, map[string]bool{})
	if hasB {
		// the destination does not alias any byte array of the value being encoded
		g.line("  requires forall k Loc :: ref(mem([]byte)[k]) != ref(buf)")
		for _, f := range r.Fields {
			if f.Type.Kind == Arr && isByteT(f.Type.Elem) && r.Kind == Struct {
				g.line("  requires ref(%s) != ref(buf)", g.fieldExpr(r, f))
			}
		}
	}
	g.line("  ensures [SIZE] result == old(%s) && hw(buf) == off(buf) + result", g.sizeX(self, V))
	g.line("  ensures [ENC] tr(buf) == old(%s)", g.encX(self, "tr(buf)", V))
	g.line("  modifies buf[0:%s], tr(buf), hw(buf)", g.sizeX(self, V))
	w := &walk{ord: 1, bytes: hasB}
	switch r.Kind {
	case Struct:
		at, tr := "0", "old(tr(buf))"
		for _, f := range r.Fields {
			v := g.fieldExpr(r, f)
			g.walkEnc(f.Type, v, at, tr, w)
			at = at + " + oh(" + g.sizeX(f.Type, v) + ")"
			tr = "oh(" + g.encX(f.Type, tr, v) + ")"
		}
	case Message:
		at := "4"
		tr := fmt.Sprintf("Ew4(old(tr(buf)), u32w(oh(%s) - 4))", g.sizeX(self, V))
		for _, f := range msgFields(r, true) {
			v := "*" + g.fieldExpr(r, f)
			g.walkEnc(f.Type, v, at+" + 1", fmt.Sprintf("snoc(%s, %d)", tr, f.Index), w)
			p := g.fieldExpr(r, f)
			at = fmt.Sprintf("%s + ite(%s != nil, 1 + oh(%s), 0)", at, p, g.sizeX(f.Type, v))
			tr = fmt.Sprintf("ite(%s != nil, oh(%s), %s)", p, g.encX(f.Type, fmt.Sprintf("snoc(%s, %d)", tr, f.Index), v), tr)
		}
	case Union:
		hdr := fmt.Sprintf("Ew4(old(tr(buf)), u32w(oh(%s) - 5))", g.sizeX(self, V))
		for i, b := range r.Branches {
			v := "*bbp." + GoFieldName(r, b.Name, g.o)
			g.walkEnc(R(b.Name), v, "4 + 1", fmt.Sprintf("snoc(%s, %d)", hdr, r.BranchIx[i]), w)
		}
	}
}

// walkEnc emits the loop invariants of MarshalBebopTo for one field value.
func (g *SpecGen) walkEnc(t *Type, v, at, tr string, w *walk) {
	if t.Kind != Arr || isByteT(t.Elem) {
		return
	}
	k := w.ord
	w.ord++
	sz := fmt.Sprintf("oh(%s(ranged(%d), it(%d)))", g.fn("sizeel", t.ID()), k, k)
	szNext := fmt.Sprintf("oh(%s(ranged(%d), it(%d) + 1))", g.fn("sizeel", t.ID()), k, k)
	en := fmt.Sprintf("oh(%s(Ew4(%s, u32w(len(ranged(%d)))), ranged(%d), it(%d)))", g.fn("encel", t.ID()), tr, k, k, k)
	g.line("  invariant loop %d: ranged(%d) == %s", k, k, v)
	g.line("  invariant loop %d: at == %s + 4 + %s && hw(buf) == off(buf) + at && UnfI(%s) && UnfI(%s)", k, at, sz, sz, szNext)
	g.line("  invariant loop %d: tr(buf) == %s && UnfT(%s)", k, en, en)
	if w.bytes {
		g.line("  invariant loop %d: %s", k, byteFrameInv)
	}
	for _, m := range w.marks {
		g.line("  invariant loop %d: %s", k, m)
	}
	saved := w.marks
	w.marks = append(append([]string(nil), w.marks...), fmt.Sprintf("UnfI(%s)", szNext))
	g.walkEnc(t.Elem, fmt.Sprintf("ranged(%d)[it(%d)]", k, k), fmt.Sprintf("%s + 4 + %s", at, sz), en, w)
	w.marks = saved
}

func (g *SpecGen) marshalContract(r *Record) {
	V := g.V(g.o.Ptr)
	self := R(r.Name)
	g.line("func %s.MarshalBebop", g.recvSwitch(r))
	g.line("  requires %s()", g.fn("wfH", ""))
	g.line("  requires %s <= 140737488355328", g.sizeX(self, V))
	g.line("  ensures [SIZE] len(result) == old(%s)", g.sizeX(self, V))
	g.line("  ensures [ENC] tr(result) == old(%s) && hw(result) == off(result) + len(result)", g.encX(self, "tr.empty", V))
	g.line("  modifies fresh(byte), tr(), hw(), alloc()")
}
