package basis

import (
	"fmt"
	"go/types"
	"os"
	"path/filepath"
	"regexp"
	"sort"
	"strings"

	"gocv/internal/vc"
)

// SpecGen derives, for one generated package, the reference wire functions
// (SMT) and the contracts of the generated methods from the schema description.
type SpecGen struct {
	e     *vc.Engine
	job   *Job
	s     *Schema
	o     Options
	pkg   *types.Package
	pfx   string
	keys  []string            // global table of heap cell keys
	kidx  map[string]int      // key -> index (SMT name h<idx>)
	ksort map[string]string   // key -> sort
	rs    map[string][]string // type ID -> read set (keys, in table order)
	used  map[string]*Type
	order []string
	ctr   strings.Builder
	smt   strings.Builder
	// Classes requested
	Want map[string]bool
	Errs []string
	// Dec: also generate the pointwise reference decoding (dec_T) and the DEC clauses of byte-slice decoders
	Dec bool
	// Encp: experimental pointwise encoder clauses (see marshalToContract)
	Encp bool
}

// PkgPath of a job's generated package.
func (j *Job) PkgPath() string { return "vbasis/gen/" + j.Name }

func NewSpecGen(e *vc.Engine, j *Job) *SpecGen {
	return &SpecGen{e: e, job: j, s: j.Schema, o: j.Opts, pkg: e.TypesPkg(j.PkgPath()), pfx: j.Name,
		kidx: map[string]int{}, ksort: map[string]string{}, rs: map[string][]string{}, used: map[string]*Type{}, Want: map[string]bool{}}
}

func (g *SpecGen) errf(format string, a ...interface{}) {
	g.Errs = append(g.Errs, fmt.Sprintf(format, a...))
}

// goType resolves the Go type the generated package uses for a basis type.
func (g *SpecGen) goType(t *Type) types.Type {
	switch t.Kind {
	case Prim:
		switch t.Name {
		case "guid":
			return types.NewArray(types.Typ[types.Uint8], 16)
		case "date":
			for _, p := range g.e.Prog.AllPackages() {
				if p.Pkg.Path() == "time" {
					return p.Pkg.Scope().Lookup("Time").Type()
				}
			}
			return nil
		case "byte":
			return types.Typ[types.Uint8]
		}
		if o := types.Universe.Lookup(t.Name); o != nil {
			return o.Type()
		}
	case EnumK, Rec:
		if o := g.pkg.Scope().Lookup(GoTypeName(t.Name, g.o)); o != nil {
			return o.Type()
		}
		return nil
	case Arr:
		if et := g.goType(t.Elem); et != nil {
			return types.NewSlice(et)
		}
	case MapK:
		kt := g.goType(P(t.Key))
		vt := g.goType(t.Elem)
		if kt != nil && vt != nil {
			return types.NewMap(kt, vt)
		}
	}
	return nil
}

// baseOf returns the primitive a type is encoded as (enums: their base).
func (g *SpecGen) baseOf(t *Type) string {
	if t.Kind == EnumK {
		if e := g.s.enum(t.Name); e != nil {
			if e.Base == "" {
				return "uint32"
			}
			return e.Base
		}
	}
	return t.Name
}

// collect registers every type used (children first).
func (g *SpecGen) collect(t *Type) {
	if t.Elem != nil {
		g.collect(t.Elem)
	}
	if t.Kind == MapK {
		g.collect(P(t.Key))
	}
	id := t.ID()
	if _, ok := g.used[id]; !ok {
		g.used[id] = t
		g.order = append(g.order, id)
	}
}

// hasMap: values of type t contain a map somewhere. Map encodings depend on Go's map iteration order, so
// there is no reference function for them; such types are covered by the safety contracts of decoders only.
func (g *SpecGen) hasMap(t *Type) bool { return g.hasMapSeen(t, map[string]bool{}) }

func (g *SpecGen) hasMapSeen(t *Type, seen map[string]bool) bool {
	switch t.Kind {
	case MapK:
		return true
	case Arr:
		return g.hasMapSeen(t.Elem, seen)
	case Rec:
		if seen[t.Name] {
			return false
		}
		seen[t.Name] = true
		r := g.s.record(t.Name)
		if r == nil {
			return false
		}
		for _, f := range r.Fields {
			if g.hasMapSeen(f.Type, seen) {
				return true
			}
		}
		for _, b := range r.Branches {
			if g.hasMapSeen(R(b.Name), seen) {
				return true
			}
		}
	}
	return false
}

// structOnly: values of type t contain no message, union or map (their wire size is then a function of the
// decoded value whatever the input was: there are no skipped, repeated or reordered parts).
func (g *SpecGen) structOnly(t *Type, seen map[string]bool) bool {
	switch t.Kind {
	case MapK:
		return false
	case Arr:
		return g.structOnly(t.Elem, seen)
	case Rec:
		if seen[t.Name] {
			return false
		}
		seen[t.Name] = true
		defer delete(seen, t.Name)
		r := g.s.record(t.Name)
		if r == nil || r.Kind != Struct {
			return false
		}
		for _, f := range r.Fields {
			if !g.structOnly(f.Type, seen) {
				return false
			}
		}
	}
	return true
}

// ---- reference DECODING (pointwise): dec_T(b, v) says that value v is what the wire format prescribes for the
// bytes at the start of slice b. It is derived from the schema description only. It exists for records built
// from structs, arrays, strings, enums and primitives (for messages and unions accepted input need not be
// canonical and the relation between bytes and value is not a function of position).

func (g *SpecGen) decOK(t *Type) bool {
	return g.structOnly(t, map[string]bool{}) && g.boundOK(t, map[string]bool{}) && g.flatElems(t, map[string]bool{})
}

// rtOK: types for which the encoder is also checked against dec (round trip): dec-able and without dates. A date
// at the Unix epoch is written as 0 ticks, which the decoder reads back as the zero time.Time: for that one
// value the bytes written do not decode to the value (observed defect, iohelp.WriteDate / ReadDate).
func (g *SpecGen) rtOK(t *Type) bool { return g.decOK(t) && g.noDate(t, map[string]bool{}) }

func (g *SpecGen) noDate(t *Type, seen map[string]bool) bool {
	switch t.Kind {
	case Prim:
		return t.Name != "date"
	case Arr:
		return g.noDate(t.Elem, seen)
	case Rec:
		if seen[t.Name] {
			return true
		}
		seen[t.Name] = true
		r := g.s.record(t.Name)
		if r == nil {
			return false
		}
		for _, f := range r.Fields {
			if !g.noDate(f.Type, seen) {
				return false
			}
		}
	}
	return true
}

// flatElems: every array inside t has elements whose value is its own footprint (primitives, strings, structs
// of those). Arrays of arrays need a frame lemma for dec across the stores that fill the inner arrays, which
// the solvers do not find reliably; such types are left out of the DEC claim.
func (g *SpecGen) flatElems(t *Type, seen map[string]bool) bool {
	switch t.Kind {
	case Arr:
		return isByteT(t.Elem) || (g.noArr(t.Elem, map[string]bool{}) && g.flatElems(t.Elem, seen))
	case Rec:
		if seen[t.Name] {
			return true
		}
		seen[t.Name] = true
		r := g.s.record(t.Name)
		if r == nil {
			return false
		}
		for _, f := range r.Fields {
			if !g.flatElems(f.Type, seen) {
				return false
			}
		}
	}
	return true
}

func (g *SpecGen) noArr(t *Type, seen map[string]bool) bool {
	switch t.Kind {
	case Arr, MapK:
		return false
	case Rec:
		if seen[t.Name] {
			return true
		}
		seen[t.Name] = true
		r := g.s.record(t.Name)
		if r == nil {
			return false
		}
		for _, f := range r.Fields {
			if !g.noArr(f.Type, seen) {
				return false
			}
		}
	}
	return true
}

// decEnsures emits one DEC clause per field (the record-level dec_T is their conjunction by definition; one
// obligation per field keeps every query small). src is "mem" (byte slice b) or "stream".
func (g *SpecGen) decEnsures(r *Record, cond, valueExpr, src string) {
	pre := "0"
	for _, f := range r.Fields {
		v := valueExpr + "." + GoFieldName(r, f.Name, g.o)
		if src == "mem" {
			g.line("  ensures [DEC] %s ==> %s(buf[%s:], %s)", cond, g.fn("dec", f.Type.ID()), pre, v)
		} else {
			g.line("  ensures [DEC] %s ==> %s(%s + %s, %s)", cond, g.fn("decs", f.Type.ID()), src, pre, v)
		}
		pre = pre + " + " + g.sizeX(f.Type, v)
	}
}

// decKeys: the heap cells a dec function reads: the byte heap (the buffer) and the value's own read set.
func (g *SpecGen) decKeys(id string) []string {
	g.key("E$uint8", "(Array Loc Int)")
	ks := []string{"E$uint8"}
	for _, k := range g.rs[id] {
		if k != "E$uint8" {
			ks = append(ks, k)
		}
	}
	return ks
}

func (g *SpecGen) hpD(id string) string {
	var ps []string
	for _, k := range g.decKeys(id) {
		ps = append(ps, fmt.Sprintf("(h%d %s)", g.kidx[k], g.ksort[k]))
	}
	return strings.Join(ps, " ")
}

func (g *SpecGen) haD(id string) string {
	var ps []string
	for _, k := range g.decKeys(id) {
		ps = append(ps, fmt.Sprintf("h%d", g.kidx[k]))
	}
	return strings.Join(ps, " ")
}

func dle(eb, l string, k int) string {
	var ts []string
	for j := 0; j < k; j++ {
		b := fmt.Sprintf("(select %s (loc+ %s %d))", eb, l, j)
		if j == 0 {
			ts = append(ts, b)
		} else {
			ts = append(ts, fmt.Sprintf("(* %s %s)", pow256[j], b))
		}
	}
	if len(ts) == 1 {
		return ts[0]
	}
	return "(+ " + strings.Join(ts, " ") + ")"
}

var pow256 = []string{"1", "256", "65536", "16777216", "4294967296", "1099511627776", "281474976710656", "72057594037927936"}

// decTerm: the SMT statement "components c are the decoding of the bytes at location l (of byte heap eb)".
func (g *SpecGen) decTerm(t *Type, l string, c []string) string {
	eb := g.h("E$uint8")
	switch t.Kind {
	case Prim, EnumK:
		switch g.baseOf(t) {
		case "bool":
			return fmt.Sprintf("(= %s (= (select %s %s) 1))", c[0], eb, l)
		case "byte", "uint8":
			return fmt.Sprintf("(= %s (select %s %s))", c[0], eb, l)
		case "uint16":
			return fmt.Sprintf("(= %s %s)", c[0], dle(eb, l, 2))
		case "int16":
			return fmt.Sprintf("(= %s %s)", toU(c[0], 16), dle(eb, l, 2))
		case "uint32", "float32":
			return fmt.Sprintf("(= %s %s)", c[0], dle(eb, l, 4))
		case "int32":
			return fmt.Sprintf("(= %s %s)", toU(c[0], 32), dle(eb, l, 4))
		case "uint64", "float64":
			return fmt.Sprintf("(= %s %s)", c[0], dle(eb, l, 8))
		case "int64":
			return fmt.Sprintf("(= %s %s)", toU(c[0], 64), dle(eb, l, 8))
		case "string":
			n := dle(eb, l, 4)
			return fmt.Sprintf("(and (= (slen %s) %s) (= %s (strOf %s (loc+ %s 4) %s)))", c[0], n, c[0], eb, l, n)
		case "guid":
			// wire position p holds guid byte guidperm(p) (written out for the 16 positions: no quantifier)
			perm := []int{3, 2, 1, 0, 5, 4, 7, 6, 8, 9, 10, 11, 12, 13, 14, 15}
			var cs []string
			for p, gb := range perm {
				cs = append(cs, fmt.Sprintf("(= (select %s %d) (select %s (loc+ %s %d)))", c[0], gb, eb, l, p))
			}
			return "(and " + strings.Join(cs, " ") + ")"
		case "date":
			n := dle(eb, l, 8)
			sn := fmt.Sprintf("(ite (>= %s 9223372036854775808) (- %s 18446744073709551616) %s)", n, n, n)
			return fmt.Sprintf("(and (=> (= %s 0) (isZeroTime %s %s %s)) (=> (and (not (= %s 0)) (<= (- 9223372036854775808) (* %s 100)) (<= (* %s 100) 9223372036854775807)) (and (not (isZeroTime %s %s %s)) (= (unixNano %s %s %s) (* %s 100)))))",
				n, c[0], c[1], c[2], n, sn, sn, c[0], c[1], c[2], c[0], c[1], c[2], sn)
		}
	case Arr, Rec:
		return app(g.fn("dec", t.ID()), g.haD(t.ID()), fmt.Sprintf("(mk-sl %s 0 0)", l), strings.Join(c, " "))
	}
	g.errf("decTerm: unsupported type %s", t.ID())
	return "true"
}

// emitDecSMT writes the definitions of the dec functions of arrays and structs.
func (g *SpecGen) emitDecSMT() {
	w := &g.smt
	// two runs of bytes that agree byte for byte make the same string (skolemised extensionality)
	w.WriteString("(declare-fun sodiff ((Array Loc Int) Loc (Array Loc Int) Loc Int) Int)\n")
	w.WriteString("(assert (forall ((e1 (Array Loc Int)) (l1 Loc) (e2 (Array Loc Int)) (l2 Loc) (n Int)) (! (or (= (strOf e1 l1 n) (strOf e2 l2 n)) (let ((d (sodiff e1 l1 e2 l2 n))) (and (<= 0 d) (< d n) (not (= (select e1 (loc+ l1 d)) (select e2 (loc+ l2 d))))))) :pattern ((strOf e1 l1 n) (strOf e2 l2 n)))))\n")
	for _, id := range g.order {
		t := g.used[id]
		if !g.decOK(t) {
			continue
		}
		HP := g.hpD(id)
		decl, c := vars("c", g.flat(t))
		decF := g.fn("dec", id)
		decApp := app(decF, g.haD(id), "b", strings.Join(c, " "))
		l := "(s-loc b)"
		eb := g.h("E$uint8")
		var body string
		switch t.Kind {
		case Prim, EnumK:
			body = g.decTerm(t, l, c)
		case Arr:
			// dec_arr(b, s) <=> len(s) == count /\ forall j < len(s): the element decodes the bytes at its position.
			// The "<=" direction is skolemised with an index function (the first element that does not fit), so that
			// establishing dec_arr only needs the element fact at one named index.
			sv := c[0]
			cnt := dle(eb, l, 4)
			elemAt := func(j string) string {
				if isByteT(t.Elem) {
					return fmt.Sprintf("(= (select %s (loc+ (s-loc %s) %s)) (select %s (loc+ %s (+ 4 %s))))", eb, sv, j, eb, l, j)
				}
				el := g.loadAt(t.Elem, fmt.Sprintf("(elt (s-loc %s) %s)", sv, j))
				var off string
				if fs := g.s.FixedSize(t.Elem); fs > 0 {
					off = fmt.Sprintf("(+ 4 (* %s %d))", j, fs)
				} else {
					off = fmt.Sprintf("(+ 4 %s)", app(g.fn("sizeel", id), g.ha(id), sv, j))
				}
				return g.decTerm(t.Elem, fmt.Sprintf("(loc+ %s %s)", l, off), el)
			}
			dfn := g.fn("decdiff", id)
			fmt.Fprintf(w, "(declare-fun %s (%s) Int)\n", dfn, sortsOf(HP, "Slice", g.flat(t)))
			d := app(dfn, g.haD(id), "b", sv)
			w.WriteString(axiom([]string{HP, "(b Slice)", decl}, fmt.Sprintf("(=> %s (and (= (s-len %s) %s) (forall ((dj Int)) (=> (and (<= 0 dj) (< dj (s-len %s))) %s))))", decApp, sv, cnt, sv, elemAt("dj")), decApp))
			w.WriteString(axiom([]string{HP, "(b Slice)", decl}, fmt.Sprintf("(or %s (not (= (s-len %s) %s)) (and (<= 0 %s) (< %s (s-len %s)) (not %s)))", decApp, sv, cnt, d, d, sv, elemAt(d)), decApp))
			continue
		case Rec:
			r := g.s.record(t.Name)
			var conj []string
			pre := []string{}
			k := 0
			for _, f := range r.Fields {
				n := len(g.flat(f.Type))
				fc := c[k : k+n]
				k += n
				conj = append(conj, g.decTerm(f.Type, fmt.Sprintf("(loc+ %s %s)", l, sum(pre)), fc))
				pre = append(pre, g.sizeTerm(f.Type, fc))
			}
			if len(conj) == 0 {
				body = "true"
			} else {
				body = "(and " + strings.Join(conj, " ") + " true)"
			}
		}
		w.WriteString(axiom([]string{HP, "(b Slice)", decl}, fmt.Sprintf("(= %s %s)", decApp, body), decApp))
	}
}

// ---- the same reference decoding over a stream: decs_T(s, p, v) says that v is what the format prescribes for
// the bytes that stream s delivers from position p on (rbyte / rstr of the trace theory).

func sle(sid, p string, k int) string {
	var ts []string
	for j := 0; j < k; j++ {
		b := fmt.Sprintf("(rbyte %s (+ %s %d))", sid, p, j)
		if j == 0 {
			ts = append(ts, b)
		} else {
			ts = append(ts, fmt.Sprintf("(* %s %s)", pow256[j], b))
		}
	}
	if len(ts) == 1 {
		return ts[0]
	}
	return "(+ " + strings.Join(ts, " ") + ")"
}

func (g *SpecGen) decsTerm(t *Type, sid, p string, c []string) string {
	switch t.Kind {
	case Prim, EnumK:
		switch g.baseOf(t) {
		case "bool":
			return fmt.Sprintf("(= %s (= (rbyte %s %s) 1))", c[0], sid, p)
		case "byte", "uint8":
			return fmt.Sprintf("(= %s (rbyte %s %s))", c[0], sid, p)
		case "uint16":
			return fmt.Sprintf("(= %s %s)", c[0], sle(sid, p, 2))
		case "int16":
			return fmt.Sprintf("(= %s %s)", toU(c[0], 16), sle(sid, p, 2))
		case "uint32", "float32":
			return fmt.Sprintf("(= %s %s)", c[0], sle(sid, p, 4))
		case "int32":
			return fmt.Sprintf("(= %s %s)", toU(c[0], 32), sle(sid, p, 4))
		case "uint64", "float64":
			return fmt.Sprintf("(= %s %s)", c[0], sle(sid, p, 8))
		case "int64":
			return fmt.Sprintf("(= %s %s)", toU(c[0], 64), sle(sid, p, 8))
		case "string":
			n := sle(sid, p, 4)
			return fmt.Sprintf("(and (= (slen %s) %s) (= %s (rstr %s (+ %s 4) %s)))", c[0], n, c[0], sid, p, n)
		case "guid":
			perm := []int{3, 2, 1, 0, 5, 4, 7, 6, 8, 9, 10, 11, 12, 13, 14, 15}
			var cs []string
			for w, gb := range perm {
				cs = append(cs, fmt.Sprintf("(= (select %s %d) (rbyte %s (+ %s %d)))", c[0], gb, sid, p, w))
			}
			return "(and " + strings.Join(cs, " ") + ")"
		case "date":
			n := sle(sid, p, 8)
			sn := fmt.Sprintf("(ite (>= %s 9223372036854775808) (- %s 18446744073709551616) %s)", n, n, n)
			return fmt.Sprintf("(and (=> (= %s 0) (isZeroTime %s %s %s)) (=> (and (not (= %s 0)) (<= (- 9223372036854775808) (* %s 100)) (<= (* %s 100) 9223372036854775807)) (and (not (isZeroTime %s %s %s)) (= (unixNano %s %s %s) (* %s 100)))))",
				n, c[0], c[1], c[2], n, sn, sn, c[0], c[1], c[2], c[0], c[1], c[2], sn)
		}
	case Arr, Rec:
		return app(g.fn("decs", t.ID()), g.ha(t.ID()), sid, p, strings.Join(c, " "))
	}
	g.errf("decsTerm: unsupported type %s", t.ID())
	return "true"
}

func (g *SpecGen) emitDecsSMT() {
	w := &g.smt
	for _, id := range g.order {
		t := g.used[id]
		if !g.decOK(t) {
			continue
		}
		HP := g.hp(id)
		decl, c := vars("c", g.flat(t))
		decF := g.fn("decs", id)
		decApp := app(decF, g.ha(id), "s", "p", strings.Join(c, " "))
		var body string
		switch t.Kind {
		case Prim, EnumK:
			body = g.decsTerm(t, "s", "p", c)
		case Arr:
			sv := c[0]
			cnt := sle("s", "p", 4)
			elemAt := func(j string) string {
				if isByteT(t.Elem) {
					return fmt.Sprintf("(= (select %s (elt (s-loc %s) %s)) (rbyte s (+ p (+ 4 %s))))", g.h("E$uint8"), sv, j, j)
				}
				el := g.loadAt(t.Elem, fmt.Sprintf("(elt (s-loc %s) %s)", sv, j))
				var off string
				if fs := g.s.FixedSize(t.Elem); fs > 0 {
					off = fmt.Sprintf("(+ 4 (* %s %d))", j, fs)
				} else {
					off = fmt.Sprintf("(+ 4 %s)", app(g.fn("sizeel", id), g.ha(id), sv, j))
				}
				return g.decsTerm(t.Elem, "s", fmt.Sprintf("(+ p %s)", off), el)
			}
			dfn := g.fn("decsdiff", id)
			fmt.Fprintf(w, "(declare-fun %s (%s) Int)\n", dfn, sortsOf(HP, "Int Int", g.flat(t)))
			d := app(dfn, g.ha(id), "s", "p", sv)
			w.WriteString(axiom([]string{HP, "(s Int)", "(p Int)", decl}, fmt.Sprintf("(=> %s (and (= (s-len %s) %s) (forall ((dj Int)) (=> (and (<= 0 dj) (< dj (s-len %s))) %s))))", decApp, sv, cnt, sv, elemAt("dj")), decApp))
			w.WriteString(axiom([]string{HP, "(s Int)", "(p Int)", decl}, fmt.Sprintf("(or %s (not (= (s-len %s) %s)) (and (<= 0 %s) (< %s (s-len %s)) (not %s)))", decApp, sv, cnt, d, d, sv, elemAt(d)), decApp))
			continue
		case Rec:
			r := g.s.record(t.Name)
			var conj []string
			pre := []string{}
			k := 0
			for _, f := range r.Fields {
				n := len(g.flat(f.Type))
				fc := c[k : k+n]
				k += n
				conj = append(conj, g.decsTerm(f.Type, "s", fmt.Sprintf("(+ p %s)", sum(pre)), fc))
				pre = append(pre, g.sizeTerm(f.Type, fc))
			}
			if len(conj) == 0 {
				body = "true"
			} else {
				body = "(and " + strings.Join(conj, " ") + " true)"
			}
		}
		w.WriteString(axiom([]string{HP, "(s Int)", "(p Int)", decl}, fmt.Sprintf("(= %s %s)", decApp, body), decApp))
	}
}

// ---- DECFUN: the reference decoding determines the value. For every type whose arrays have fixed-size
// elements (offsets then do not depend on the elements themselves; variable-size elements would need induction
// on the index) and which contains no date (a time.Time is abstract here): dec_T(b, v) and dec_T(b, w) imply
// v = w, componentwise and, for arrays, element by element.

func (g *SpecGen) funOK(t *Type, seen map[string]bool) bool {
	switch t.Kind {
	case Prim:
		return t.Name != "date"
	case EnumK:
		return true
	case Arr:
		return g.s.FixedSize(t.Elem) > 0 && g.funOK(t.Elem, seen)
	case Rec:
		if seen[t.Name] {
			return false
		}
		seen[t.Name] = true
		defer delete(seen, t.Name)
		r := g.s.record(t.Name)
		if r == nil || r.Kind != Struct {
			return false
		}
		for _, f := range r.Fields {
			if !g.funOK(f.Type, seen) {
				return false
			}
		}
		return true
	}
	return false
}

// eqvTerm: "the two flattened values are the same value" (arrays: same length and the same elements).
func (g *SpecGen) eqvTerm(t *Type, c, d []string) string {
	switch t.Kind {
	case Prim, EnumK:
		if g.baseOf(t) == "guid" {
			var cs []string
			for j := 0; j < 16; j++ {
				cs = append(cs, fmt.Sprintf("(= (select %s %d) (select %s %d))", c[0], j, d[0], j))
			}
			return "(and " + strings.Join(cs, " ") + ")"
		}
		return fmt.Sprintf("(= %s %s)", c[0], d[0])
	case Arr:
		ec := g.loadAt(t.Elem, fmt.Sprintf("(elt (s-loc %s) ej)", c[0]))
		ed := g.loadAt(t.Elem, fmt.Sprintf("(elt (s-loc %s) ej)", d[0]))
		return fmt.Sprintf("(and (= (s-len %s) (s-len %s)) (forall ((ej Int)) (=> (and (<= 0 ej) (< ej (s-len %s))) %s)))", c[0], d[0], c[0], g.eqvTerm(t.Elem, ec, ed))
	case Rec:
		r := g.s.record(t.Name)
		var cs []string
		k := 0
		for _, f := range r.Fields {
			n := len(g.flat(f.Type))
			cs = append(cs, g.eqvTerm(f.Type, c[k:k+n], d[k:k+n]))
			k += n
		}
		if len(cs) == 0 {
			return "true"
		}
		return "(and " + strings.Join(cs, " ") + " true)"
	}
	return "true"
}

func (g *SpecGen) emitDecFunLemmas() {
	for _, id := range g.order {
		t := g.used[id]
		if !g.decOK(t) || !g.funOK(t, map[string]bool{}) || t.Kind == Prim || t.Kind == EnumK {
			continue
		}
		var decls []string
		for _, k := range g.decKeys(id) {
			decls = append(decls, fmt.Sprintf("(declare-const h%d %s)", g.kidx[k], g.ksort[k]))
		}
		decls = append(decls, "(declare-const b Slice)")
		sorts := g.flat(t)
		var c, d []string
		for i, so := range sorts {
			c = append(c, fmt.Sprintf("v%d", i))
			d = append(d, fmt.Sprintf("w%d", i))
			decls = append(decls, fmt.Sprintf("(declare-const v%d %s)", i, so), fmt.Sprintf("(declare-const w%d %s)", i, so))
		}
		decF := g.fn("dec", id)
		hyps := []string{app(decF, g.haD(id), "b", strings.Join(c, " ")), app(decF, g.haD(id), "b", strings.Join(d, " "))}
		// typing: integer components and integer heap cells hold values of their Go type
		hyps = append(hyps, g.rangeHyps(t, c)...)
		hyps = append(hyps, g.rangeHyps(t, d)...)
		for _, k := range g.decKeys(id) {
			if lo, hi, ok := heapRange(k); ok {
				hyps = append(hyps, fmt.Sprintf("(forall ((hk Loc)) (! (and (<= %s (select h%d hk)) (<= (select h%d hk) %s)) :pattern ((select h%d hk))))", lo, g.kidx[k], g.kidx[k], hi, g.kidx[k]))
			}
		}
		g.e.RawLemmas = append(g.e.RawLemmas, vc.RawLemma{
			Pkg: g.job.PkgPath(), Name: "DECFUN/" + id, Decls: decls,
			Hyps: hyps,
			Goal: g.eqvTerm(t, c, d),
		})
	}
}

var intRanges = map[string][2]string{
	"byte": {"0", "255"}, "uint8": {"0", "255"}, "uint16": {"0", "65535"}, "uint32": {"0", "4294967295"}, "uint64": {"0", "18446744073709551615"},
	"int16": {"(- 32768)", "32767"}, "int32": {"(- 2147483648)", "2147483647"}, "int64": {"(- 9223372036854775808)", "9223372036854775807"},
	"float32": {"0", "4294967295"}, "float64": {"0", "18446744073709551615"},
}

// rangeHyps: the integer components of a flattened value of type t lie in the range of their Go type.
func (g *SpecGen) rangeHyps(t *Type, c []string) []string {
	switch t.Kind {
	case Prim, EnumK:
		if r, ok := intRanges[g.baseOf(t)]; ok {
			return []string{fmt.Sprintf("(and (<= %s %s) (<= %s %s))", r[0], c[0], c[0], r[1])}
		}
	case Rec:
		r := g.s.record(t.Name)
		var out []string
		k := 0
		for _, f := range r.Fields {
			n := len(g.flat(f.Type))
			out = append(out, g.rangeHyps(f.Type, c[k:k+n])...)
			k += n
		}
		return out
	}
	return nil
}

// heapRange: the range of the values an element heap of integer type holds (by its key E$<type>).
func heapRange(key string) (lo, hi string, ok bool) {
	if !strings.HasPrefix(key, "E$") {
		return "", "", false
	}
	r, ok := intRanges[strings.TrimPrefix(key, "E$")]
	return r[0], r[1], ok
}

// sortsOf lists the argument sorts of a function over the heap parameters hp, extra sorts and value sorts.
func sortsOf(hp string, extra string, vs []string) string {
	var out []string
	for _, m := range reHPSort.FindAllStringSubmatch(hp, -1) {
		out = append(out, m[1])
	}
	if extra != "" {
		out = append(out, extra)
	}
	out = append(out, vs...)
	return strings.Join(out, " ")
}

var reHPSort = regexp.MustCompile(`\(h[0-9]+ (\(Array [^()]*(?:\([^()]*\))?[^()]*\)|[A-Za-z]+)\)`)

func (g *SpecGen) fn(kind, id string) string { return kind + "_" + g.pfx + "_" + id }

// flat returns the SMT sorts of the flattened value of t.
func (g *SpecGen) flat(t *Type) []string {
	switch t.Kind {
	case Prim, EnumK:
		switch g.baseOf(t) {
		case "bool":
			return []string{"Bool"}
		case "string":
			return []string{"Str"}
		case "guid":
			return []string{"(Array Int Int)"}
		case "date":
			return []string{"Int", "Int", "Loc"}
		}
		return []string{"Int"}
	case Arr:
		return []string{"Slice"}
	case MapK:
		return []string{"Int"}
	case Rec:
		r := g.s.record(t.Name)
		var out []string
		switch r.Kind {
		case Struct:
			for _, f := range r.Fields {
				out = append(out, g.flat(f.Type)...)
			}
		case Message:
			for range r.Fields {
				out = append(out, "Loc")
			}
		case Union:
			for range r.Branches {
				out = append(out, "Loc")
			}
		}
		return out
	}
	return nil
}

// key registers a heap cell key and returns its index.
func (g *SpecGen) key(k, sort string) int {
	if i, ok := g.kidx[k]; ok {
		return i
	}
	g.kidx[k] = len(g.keys)
	g.keys = append(g.keys, k)
	g.ksort[k] = sort
	return len(g.keys) - 1
}

// locKeys lists the cells that hold a value of Go type t stored at a heap location.
func (g *SpecGen) locKeys(t types.Type, root types.Type, names []string) []string {
	if st, ok := t.Underlying().(*types.Struct); ok {
		if root == nil {
			root = t
			names = nil
		}
		var out []string
		for i := 0; i < st.NumFields(); i++ {
			out = append(out, g.locKeys(st.Field(i).Type(), root, append(append([]string(nil), names...), st.Field(i).Name()))...)
		}
		return out
	}
	var k string
	if root != nil {
		k = vc.FieldMapKey(root, names)
	} else {
		k = vc.ElemMapKey(t)
	}
	g.key(k, "(Array Loc "+vc.SortOf(t)+")")
	return []string{k}
}

// readSet computes (as a fixpoint over the type graph) the heap cells the reference
// functions of each type read: element cells of arrays, pointee cells of message and
// union members. Values held directly (struct fields, scalars) are arguments, not heap.
func (g *SpecGen) computeReadSets() {
	sets := map[string]map[string]bool{}
	for _, id := range g.order {
		sets[id] = map[string]bool{}
	}
	addAll := func(dst map[string]bool, ks []string) bool {
		ch := false
		for _, k := range ks {
			if !dst[k] {
				dst[k] = true
				ch = true
			}
		}
		return ch
	}
	setKeys := func(m map[string]bool) []string {
		var out []string
		for k := range m {
			out = append(out, k)
		}
		return out
	}
	for changed := true; changed; {
		changed = false
		for _, id := range g.order {
			t := g.used[id]
			dst := sets[id]
			switch t.Kind {
			case Arr:
				if gt := g.goType(t.Elem); gt != nil {
					changed = addAll(dst, g.locKeys(gt, nil, nil)) || changed
				}
				changed = addAll(dst, setKeys(sets[t.Elem.ID()])) || changed
			case Rec:
				r := g.s.record(t.Name)
				switch r.Kind {
				case Struct:
					for _, f := range r.Fields {
						changed = addAll(dst, setKeys(sets[f.Type.ID()])) || changed
					}
				case Message:
					for _, f := range r.Fields {
						if f.Type.Kind == Prim && f.Type.Name == "guid" {
							g.key("E$uint8", "(Array Loc Int)")
							changed = addAll(dst, []string{"E$uint8"}) || changed
						} else if gt := g.goType(f.Type); gt != nil {
							changed = addAll(dst, g.locKeys(gt, nil, nil)) || changed
						}
						changed = addAll(dst, setKeys(sets[f.Type.ID()])) || changed
					}
				case Union:
					for _, b := range r.Branches {
						if gt := g.goType(R(b.Name)); gt != nil {
							changed = addAll(dst, g.locKeys(gt, nil, nil)) || changed
						}
						changed = addAll(dst, setKeys(sets[b.Name])) || changed
					}
				}
			}
		}
	}
	for id, m := range sets {
		var ks []string
		for k := range m {
			ks = append(ks, k)
		}
		sort.Slice(ks, func(i, j int) bool { return g.kidx[ks[i]] < g.kidx[ks[j]] })
		g.rs[id] = ks
	}
}

func (g *SpecGen) hp(id string) string {
	var ps []string
	for _, k := range g.rs[id] {
		ps = append(ps, fmt.Sprintf("(h%d %s)", g.kidx[k], g.ksort[k]))
	}
	return strings.Join(ps, " ")
}

func (g *SpecGen) ha(id string) string {
	var ps []string
	for _, k := range g.rs[id] {
		ps = append(ps, fmt.Sprintf("h%d", g.kidx[k]))
	}
	return strings.Join(ps, " ")
}

func (g *SpecGen) h(key string) string {
	i, ok := g.kidx[key]
	if !ok {
		g.errf("heap cell %s is not registered", key)
		return "h0"
	}
	return fmt.Sprintf("h%d", i)
}

// wfHs is the SMT formula "every slice stored in the cells read by type id is well formed".
func (g *SpecGen) wfHs(id string) string {
	var cs []string
	for _, k := range g.rs[id] {
		if g.ksort[k] == "(Array Loc Slice)" {
			cs = append(cs, fmt.Sprintf("(forall ((k Loc)) (! (wf-slice (select h%d k)) :pattern ((select h%d k))))", g.kidx[k], g.kidx[k]))
		}
	}
	if len(cs) == 0 {
		return "true"
	}
	return "(and " + strings.Join(cs, " ") + ")"
}

// app renders an application of a reference function, omitting empty argument groups.
func app(fn string, groups ...string) string {
	var parts []string
	for _, gp := range groups {
		if strings.TrimSpace(gp) != "" {
			parts = append(parts, gp)
		}
	}
	if len(parts) == 0 {
		return fn
	}
	return "(" + fn + " " + strings.Join(parts, " ") + ")"
}

func vars(prefix string, sorts []string) (decl string, args []string) {
	var ds []string
	for i, s := range sorts {
		n := fmt.Sprintf("%s%d", prefix, i)
		ds = append(ds, fmt.Sprintf("(%s %s)", n, s))
		args = append(args, n)
	}
	return strings.Join(ds, " "), args
}

// loadAt returns the flattened components of a value of type t stored at heap location loc.
func (g *SpecGen) loadAt(t *Type, loc string) []string {
	gt := g.goType(t)
	if gt == nil {
		g.errf("no Go type for %s", t.ID())
		return []string{"0"}
	}
	return g.loadGo(gt, nil, nil, loc)
}

func (g *SpecGen) loadGo(t types.Type, root types.Type, names []string, loc string) []string {
	if st, ok := t.Underlying().(*types.Struct); ok {
		if root == nil {
			root = t
			names = nil
		}
		var out []string
		for i := 0; i < st.NumFields(); i++ {
			out = append(out, g.loadGo(st.Field(i).Type(), root, append(append([]string(nil), names...), st.Field(i).Name()), loc)...)
		}
		return out
	}
	var key string
	if root != nil {
		key = vc.FieldMapKey(root, names)
	} else {
		key = vc.ElemMapKey(t)
	}
	g.key(key, "(Array Loc "+vc.SortOf(t)+")")
	return []string{fmt.Sprintf("(select %s %s)", g.h(key), loc)}
}

func toU(x string, bits int) string {
	return fmt.Sprintf("(ite (< %s 0) (+ %s %s) %s)", x, x, pow2s[bits], x)
}

var pow2s = map[int]string{8: "256", 16: "65536", 32: "4294967296", 64: "18446744073709551616"}

// encTerm is the reference encoding of a value (flattened components c) of type t appended to trace tr.
func (g *SpecGen) encTerm(t *Type, tr string, c []string) string {
	switch t.Kind {
	case Prim, EnumK:
		switch g.baseOf(t) {
		case "bool":
			return fmt.Sprintf("(snoc %s (ite %s 1 0))", tr, c[0])
		case "byte", "uint8":
			return fmt.Sprintf("(snoc %s %s)", tr, c[0])
		case "uint16":
			return fmt.Sprintf("(Ew2 %s %s)", tr, c[0])
		case "int16":
			return fmt.Sprintf("(Ew2 %s %s)", tr, toU(c[0], 16))
		case "uint32", "float32":
			return fmt.Sprintf("(Ew4 %s %s)", tr, c[0])
		case "int32":
			return fmt.Sprintf("(Ew4 %s %s)", tr, toU(c[0], 32))
		case "uint64", "float64":
			return fmt.Sprintf("(Ew8 %s %s)", tr, c[0])
		case "int64":
			return fmt.Sprintf("(Ew8 %s %s)", tr, toU(c[0], 64))
		case "string":
			return fmt.Sprintf("(tr.str (Ew4 %s (u32w (slen %s))) %s (slen %s))", tr, c[0], c[0], c[0])
		case "guid":
			return fmt.Sprintf("(Eguid %s %s)", tr, c[0])
		case "date":
			return fmt.Sprintf("(Ew8 %s (let ((tk (dateTicks %s %s %s))) %s))", tr, c[0], c[1], c[2], toU("tk", 64))
		}
	case Arr, Rec, MapK:
		return app(g.fn("enc", t.ID()), g.ha(t.ID()), tr, strings.Join(c, " "))
	}
	g.errf("encTerm: unsupported type %s", t.ID())
	return tr
}

func (g *SpecGen) sizeTerm(t *Type, c []string) string {
	if n := g.s.FixedSize(t); n > 0 {
		return fmt.Sprint(n)
	}
	if t.Kind == Prim && t.Name == "string" {
		return fmt.Sprintf("(+ 4 (slen %s))", c[0])
	}
	return app(g.fn("size", t.ID()), g.ha(t.ID()), strings.Join(c, " "))
}

func isByteT(t *Type) bool { return t.Kind == Prim && (t.Name == "byte" || t.Name == "uint8") }

var reHName = regexp.MustCompile(`\bh[0-9]+\b`)

// axiom renders (assert (forall (decls) (! body :pattern (pat)))) and degrades gracefully without variables.
func axiom(decls []string, body, pat string) string {
	var ds []string
	for _, d := range decls {
		if strings.TrimSpace(d) != "" {
			ds = append(ds, d)
		}
	}
	if len(ds) == 0 {
		return "(assert " + body + ")\n"
	}
	return fmt.Sprintf("(assert (forall (%s) (! %s :pattern (%s))))\n", strings.Join(ds, " "), body, pat)
}

// emitSMT writes the definitional axioms of the reference functions.
func (g *SpecGen) emitSMT() {
	w := &g.smt
	for _, id := range g.order {
		t := g.used[id]
		if g.hasMap(t) {
			continue // no reference function (see hasMap)
		}
		HP, HA := g.hp(id), g.ha(id)
		decl, c := vars("c", g.flat(t))
		encF, sizeF := g.fn("enc", id), g.fn("size", id)
		ca := strings.Join(c, " ")
		encApp := app(encF, HA, "t", ca)
		sizeApp := app(sizeF, HA, ca)
		switch t.Kind {
		case Prim, EnumK:
			w.WriteString(axiom([]string{HP, "(t Tr)", decl}, fmt.Sprintf("(= %s %s)", encApp, g.encTerm(t, "t", c)), encApp))
			w.WriteString(axiom([]string{HP, decl}, fmt.Sprintf("(= %s %s)", sizeApp, g.sizeTerm(t, c)), sizeApp))
		case Arr:
			s := c[0]
			if isByteT(t.Elem) {
				w.WriteString(axiom([]string{HP, "(t Tr)", decl}, fmt.Sprintf("(= %s (tr.raw (Ew4 t (u32w (s-len %s))) %s (s-loc %s) (s-len %s)))", encApp, s, g.h("E$uint8"), s, s), encApp))
				w.WriteString(axiom([]string{HP, decl}, fmt.Sprintf("(= %s (+ 4 (ite (<= (s-len %s) 0) 0 (s-len %s))))", sizeApp, s, s), sizeApp))
				continue
			}
			encel, sizeel := g.fn("encel", id), g.fn("sizeel", id)
			el := g.loadAt(t.Elem, fmt.Sprintf("(loc+ (s-loc %s) (- i 1))", s))
			fixed := g.s.FixedSize(t.Elem)
			encelAt := func(tr, i string) string { return app(encel, HA, tr, s, i) }
			sizeelAt := func(i string) string { return app(sizeel, HA, s, i) }
			// base and (marker-triggered) unfolding
			w.WriteString(axiom([]string{HP, "(t Tr)", decl, "(i Int)"}, fmt.Sprintf("(=> (<= i 0) (= %s t))", encelAt("t", "i")), encelAt("t", "i")))
			w.WriteString(axiom([]string{HP, "(t Tr)", decl, "(i Int)"},
				fmt.Sprintf("(=> (> i 0) (= %s %s))", encelAt("t", "i"), g.encTerm(t.Elem, encelAt("t", "(- i 1)"), el)), "(UnfT "+encelAt("t", "i")+")"))
			if fixed > 0 {
				w.WriteString(axiom([]string{HP, decl, "(i Int)"}, fmt.Sprintf("(= %s (ite (<= i 0) 0 (* i %d)))", sizeelAt("i"), fixed), sizeelAt("i")))
			} else {
				w.WriteString(axiom([]string{HP, decl, "(i Int)"}, fmt.Sprintf("(=> (<= i 0) (= %s 0))", sizeelAt("i")), sizeelAt("i")))
				w.WriteString(axiom([]string{HP, decl, "(i Int)"},
					fmt.Sprintf("(=> (> i 0) (= %s (+ %s %s)))", sizeelAt("i"), sizeelAt("(- i 1)"), g.sizeTerm(t.Elem, el)), "(UnfI "+sizeelAt("i")+")"))
				// spec-level lemmas about the reference (by induction on i, every element size being >= 0; see DESIGN section 8)
				w.WriteString(axiom([]string{HP, decl, "(i Int)", "(j Int)"},
					fmt.Sprintf("(=> (<= i j) (<= %s %s))", sizeelAt("i"), sizeelAt("j")), sizeelAt("i")+" "+sizeelAt("j")))
				w.WriteString(axiom([]string{HP, decl, "(i Int)"},
					fmt.Sprintf("(>= %s 0)", sizeelAt("i")), sizeelAt("i")))
			}
			if fixed == 0 && len(g.rs[id]) > 0 {
				// extensional frame lemma (by induction on i): the prefix sum depends only on the elements
				// below i — their stored components and, for elements that read the heap themselves, their own size
				var hp2, ha2, sorts []string
				ren := map[string]string{}
				for _, k := range g.rs[id] {
					hp2 = append(hp2, fmt.Sprintf("(g%d %s)", g.kidx[k], g.ksort[k]))
					ha2 = append(ha2, fmt.Sprintf("g%d", g.kidx[k]))
					sorts = append(sorts, g.ksort[k])
					ren[fmt.Sprintf("h%d", g.kidx[k])] = fmt.Sprintf("g%d", g.kidx[k])
				}
				toG := func(term string) string {
					return reHName.ReplaceAllStringFunc(term, func(m string) string {
						if r, ok := ren[m]; ok {
							return r
						}
						return m
					})
				}
				elD := g.loadAt(t.Elem, fmt.Sprintf("(loc+ (s-loc %s) d)", s))
				var diffs []string
				for _, c1 := range elD {
					diffs = append(diffs, fmt.Sprintf("(not (= %s %s))", c1, toG(c1)))
				}
				if !g.flat0(t.Elem) {
					st := g.sizeTerm(t.Elem, elD)
					diffs = append(diffs, fmt.Sprintf("(not (= %s %s))", st, toG(st)))
				}
				dfn := g.fn("sizeeldiff", id)
				fmt.Fprintf(w, "(declare-fun %s (%s %s Slice Int) Int)\n", dfn, strings.Join(sorts, " "), strings.Join(sorts, " "))
				a1 := sizeelAt("i")
				a2 := app(sizeel, strings.Join(ha2, " "), s, "j")
				// the two index terms are matched separately and compared arithmetically (E-matching alone
				// does not identify i+1-1 with i)
				w.WriteString(axiom([]string{HP, strings.Join(hp2, " "), decl, "(i Int)", "(j Int)"},
					fmt.Sprintf("(=> (= i j) (or (= %s %s) (let ((d (%s %s %s %s i))) (and (<= 0 d) (< d i) (or %s false)))))", a1, a2, dfn, HA, strings.Join(ha2, " "), s, strings.Join(diffs, " ")),
					a1+" "+a2))
			}
			// whole array
			w.WriteString(axiom([]string{HP, "(t Tr)", decl}, fmt.Sprintf("(= %s %s)", encApp, encelAt(fmt.Sprintf("(Ew4 t (u32w (s-len %s)))", s), fmt.Sprintf("(s-len %s)", s))), encApp))
			w.WriteString(axiom([]string{HP, decl}, fmt.Sprintf("(= %s (+ 4 %s))", sizeApp, sizeelAt(fmt.Sprintf("(s-len %s)", s))), sizeApp))
		case Rec:
			r := g.s.record(t.Name)
			encBody, sizeBody := g.recBodies(r, c)
			w.WriteString(axiom([]string{HP, "(t Tr)", decl}, fmt.Sprintf("(= %s %s)", encApp, encBody), encApp))
			w.WriteString(axiom([]string{HP, decl}, fmt.Sprintf("(= %s %s)", sizeApp, sizeBody), sizeApp))
			w.WriteString(axiom([]string{HP, decl}, fmt.Sprintf("(>= %s 0)", sizeApp), sizeApp))
		}
	}
}

func sum(ts []string) string {
	if len(ts) == 0 {
		return "0"
	}
	if len(ts) == 1 {
		return ts[0]
	}
	return "(+ " + strings.Join(ts, " ") + ")"
}

// recBodies returns the SMT bodies of enc and size for a record, over trace "t" and components c.
func (g *SpecGen) recBodies(r *Record, c []string) (enc, size string) {
	switch r.Kind {
	case Struct:
		tr := "t"
		var sizes []string
		k := 0
		for _, f := range r.Fields {
			n := len(g.flat(f.Type))
			fc := c[k : k+n]
			k += n
			tr = g.encTerm(f.Type, tr, fc)
			sizes = append(sizes, g.sizeTerm(f.Type, fc))
		}
		return tr, sum(sizes)
	case Message:
		fs := append([]Field(nil), r.Fields...)
		idx := map[string]int{}
		for i, f := range r.Fields {
			idx[f.Name] = i
		}
		sort.SliceStable(fs, func(i, j int) bool { return fs[i].Index < fs[j].Index })
		self := app(g.fn("size", r.Name), g.ha(r.Name), strings.Join(c, " "))
		tr := fmt.Sprintf("(Ew4 t (u32w (- %s 4)))", self)
		sizes := []string{"5"}
		for _, f := range fs {
			if f.Deprecated {
				continue
			}
			p := c[idx[f.Name]]
			val := g.loadAt(f.Type, p)
			if f.Type.Kind == Prim && f.Type.Name == "guid" {
				// new([16]byte) is an array object of its own: its bytes live in the byte heap at (ref, 0..15)
				val = []string{fmt.Sprintf("(arr16at %s %s)", g.h("E$uint8"), p)}
			}
			present := fmt.Sprintf("(not (= %s (mk-loc 0 0)))", p)
			tr = fmt.Sprintf("(ite %s %s %s)", present, g.encTerm(f.Type, fmt.Sprintf("(snoc %s %d)", tr, f.Index), val), tr)
			sizes = append(sizes, fmt.Sprintf("(ite %s (+ 1 %s) 0)", present, g.sizeTerm(f.Type, val)))
		}
		return fmt.Sprintf("(snoc %s 0)", tr), sum(sizes)
	case Union:
		self := app(g.fn("size", r.Name), g.ha(r.Name), strings.Join(c, " "))
		hdr := fmt.Sprintf("(Ew4 t (u32w (- %s 5)))", self)
		enc, size = hdr, "4"
		type br struct {
			i  int
			ix int
		}
		var bs []br
		for i := range r.Branches {
			bs = append(bs, br{i, r.BranchIx[i]})
		}
		sort.Slice(bs, func(a, b int) bool { return bs[a].ix < bs[b].ix })
		// the first populated member (in discriminator order) wins
		for k := len(bs) - 1; k >= 0; k-- {
			b := r.Branches[bs[k].i]
			p := c[bs[k].i]
			bt := R(b.Name)
			val := g.loadAt(bt, p)
			present := fmt.Sprintf("(not (= %s (mk-loc 0 0)))", p)
			enc = fmt.Sprintf("(ite %s %s %s)", present, g.encTerm(bt, fmt.Sprintf("(snoc %s %d)", hdr, bs[k].ix), val), enc)
			size = fmt.Sprintf("(ite %s (+ 5 %s) %s)", present, g.sizeTerm(bt, val), size)
		}
		return enc, size
	}
	return "t", "0"
}

// ---- contract text ---------------------------------------------------------------

func (g *SpecGen) line(format string, a ...interface{}) {
	fmt.Fprintf(&g.ctr, "//@ "+format+"\n", a...)
}

func (g *SpecGen) encX(t *Type, tr, v string) string {
	return fmt.Sprintf("%s(%s, %s)", g.fn("enc", t.ID()), tr, v)
}
func (g *SpecGen) sizeX(t *Type, v string) string {
	return fmt.Sprintf("%s(%s)", g.fn("size", t.ID()), v)
}

// recv returns "(T)" or "(*T)" for methods with the value/pointer receiver switch.
func (g *SpecGen) recvSwitch(r *Record) string {
	n := GoTypeName(r.Name, g.o)
	if g.o.Ptr {
		return "(*" + n + ")"
	}
	return "(" + n + ")"
}

// V is the expression denoting the record value inside method contracts.
func (g *SpecGen) V(ptrRecv bool) string {
	if ptrRecv {
		return "*bbp"
	}
	return "bbp"
}

func (g *SpecGen) fieldExpr(r *Record, f Field) string {
	return "bbp." + GoFieldName(r, f.Name, g.o)
}

// Generate writes the contract file of the package and registers SMT definitions.
func (g *SpecGen) Generate() error {
	if g.pkg == nil {
		return fmt.Errorf("package %s not loaded", g.job.PkgPath())
	}
	for _, r := range g.s.AllRecords() {
		for _, f := range r.Fields {
			g.collect(f.Type)
		}
		g.collect(R(r.Name))
	}
	g.computeReadSets()
	fmt.Fprintf(&g.ctr, "//go:build verif\n\n// Contracts derived from the schema description %s (options %s) by /verif's spec generator.\npackage %s\n\n", g.s.Name, g.o, g.s.Name)
	for _, id := range g.order {
		t := g.used[id]
		if g.hasMap(t) {
			continue
		}
		gt := t.GoType(g.o)
		bundle := "H_" + g.pfx + "_" + id
		var items []string
		for _, k := range g.rs[id] {
			items = append(items, "key:"+k+":"+g.ksort[k])
		}
		g.line("heaps %s: %s", bundle, strings.Join(items, ", "))
		g.line("pure func %s(h heap:%s, t Tr, v %s) Tr", g.fn("enc", id), bundle, gt)
		g.line("pure func %s(h heap:%s, v %s) int", g.fn("size", id), bundle, gt)
		if t.Kind == Arr && !isByteT(t.Elem) {
			g.line("pure func %s(h heap:%s, t Tr, s %s, i int) Tr", g.fn("encel", id), bundle, gt)
			g.line("pure func %s(h heap:%s, s %s, i int) int", g.fn("sizeel", id), bundle, gt)
		}
		if g.decOK(t) && g.Dec {
			bundleD := "HD_" + g.pfx + "_" + id
			var itemsD []string
			for _, k := range g.decKeys(id) {
				itemsD = append(itemsD, "key:"+k+":"+g.ksort[k])
			}
			g.line("heaps %s: %s", bundleD, strings.Join(itemsD, ", "))
			g.line("pure func %s(h heap:%s, b []byte, v %s) bool", g.fn("dec", id), bundleD, gt)
			g.line("pure func %s(h heap:%s, s int, p int, v %s) bool", g.fn("decs", id), bundle, gt)
		}
	}
	for _, r := range g.s.AllRecords() {
		g.recordContracts(r)
	}
	path := filepath.Join(g.job.Dir, "verif_contracts.go")
	if err := os.WriteFile(path, []byte(g.ctr.String()), 0o644); err != nil {
		return err
	}
	if err := g.e.AddContractFile(path, g.job.PkgPath()); err != nil {
		return err
	}
	g.emitSMT()
	if g.Dec {
		g.emitDecSMT()
		g.emitDecsSMT()
		g.emitDecFunLemmas()
	}
	g.e.RawSMTLate[g.job.PkgPath()] = append(g.e.RawSMTLate[g.job.PkgPath()], g.smt.String())
	if len(g.Errs) > 0 {
		return fmt.Errorf("spec generator: %s", strings.Join(g.Errs, "; "))
	}
	return nil
}

// walker state for loops
type walk struct {
	sep    []string // separation facts: other fields of the message do not point into the array being filled
	zero   string   // "the receiver was the zero value at entry" (message/union decoders)
	frames []string // universal frame invariants for heap cells that per-iteration copies may extend
	marks  []string // unfolding markers of enclosing loops (needed to bound partial sums)
	ord    int
	nn     string // "p != nil" for the message field being walked (safe mode)
	dec    bool   // emit the DEC invariants (pointwise reference decoding)
	bytes  bool   // the record contains byte arrays: carry the frame of the byte heap through loops
}

// hasByteArr reports whether a value of type t can contain a byte array.
func (g *SpecGen) hasByteArr(t *Type, seen map[string]bool) bool {
	switch t.Kind {
	case Arr:
		return isByteT(t.Elem) || g.hasByteArr(t.Elem, seen)
	case MapK:
		return g.hasByteArr(t.Elem, seen)
	case Rec:
		if seen[t.Name] {
			return false
		}
		seen[t.Name] = true
		r := g.s.record(t.Name)
		for _, f := range r.Fields {
			if g.hasByteArr(f.Type, seen) {
				return true
			}
		}
		for _, b := range r.Branches {
			if g.hasByteArr(R(b.Name), seen) {
				return true
			}
		}
	}
	return false
}

// needsByteHeap: the reference functions read the byte heap only when the schema has byte
// arrays, or message fields whose pointee lives in the byte heap (byte, uint8, guid).
func (g *SpecGen) needsByteHeap() bool {
	for _, r := range g.s.AllRecords() {
		if g.hasByteArr(R(r.Name), map[string]bool{}) {
			return true
		}
		if r.Kind == Message {
			for _, f := range r.Fields {
				if f.Type.Kind == Prim && (isByteT(f.Type) || f.Type.Name == "guid") {
					return true
				}
			}
		}
	}
	return false
}

// copyFrames: with pointer receivers the generated code takes the address of per-iteration
// copies, which therefore live in the heap; cells read by the reference functions keep
// their contents at every location allocated before the call.
func (g *SpecGen) copyFrames(elem *Type) []string {
	if !g.o.Ptr || elem.Kind != Rec {
		return nil
	}
	gt := g.goType(elem)
	if gt == nil {
		return nil
	}
	var out []string
	for _, k := range g.locKeys(gt, nil, nil) {
		out = append(out, fmt.Sprintf("forall k Loc :: allocated(k) ==> memkey(%q, %q)[k] == old(memkey(%q, %q))[k]", k, g.ksort[k], k, g.ksort[k]))
	}
	return out
}

const byteFrameInv = "forall k Loc :: allocated(k) && ref(k) != ref(buf) ==> mem(byte)[k] == old(mem(byte))[k]"

func (g *SpecGen) recordContracts(r *Record) {
	if g.hasMap(R(r.Name)) {
		// safety contracts of the decoders only
		g.unmarshalContract(r)
		g.makeContracts(r)
		g.decodeContract(r)
		return
	}
	g.sizeContract(r)
	g.marshalToContract(r)
	g.marshalContract(r)
	g.encodeContract(r)
	g.unmarshalContract(r)
	g.makeContracts(r)
	g.decodeContract(r)
}

const erT = "*iohelp.ErrorReader"

// allocK: at most this many bytes of make()-requested memory per input byte.
const allocK = 64

// streamMods is what a stream decoder may modify besides its receiver.
func (g *SpecGen) streamMods(er string, r *Record) string {
	if g.hasMap(R(r.Name)) {
		return fmt.Sprintf("%s.Err, %s.Reader, %s.buffer[0:8], taken(), failed(), any(io.LimitedReader.N), fresh(), tr(), hw(), alloc()", er, er, er)
	}
	return fmt.Sprintf("%s.Err, %s.Reader, %s.buffer[0:8], taken(), failed(), any(io.LimitedReader.N), %s, fresh(byte), fresh(iohelp.ErrorReader), fresh(io.LimitedReader), tr(), hw(), alloc()", er, er, er, g.freshFor(r))
}

// decodeContract: DecodeBebop on an arbitrary (possibly failing) reader does not panic, and a
// failure of the underlying reader during the call surfaces as a non-nil error. Stream state is
// keyed by the root of the reader chain, so installing io.LimitedReader windows does not matter.
func (g *SpecGen) decodeContract(r *Record) {
	n := GoTypeName(r.Name, g.o)
	asp := fmt.Sprintf("asptr(ior, %s)", erT)
	g.line("func (*%s).DecodeBebop", n)
	g.line("  requires okRI(ior)")
	g.line("  ensures [LATCH] (failed(ur(ior)) && !old(failed(ur(ior)))) ==> err != nil")
	g.line("  ensures [LATCH] istype(ior, %s) ==> okR(%s) && sid(%s.Reader) == old(sid(%s.Reader)) && (old(%s.Err) != nil ==> %s.Err != nil)", erT, asp, asp, asp, asp, asp)
	g.line("  ensures [CONS] (istype(ior, %s) && err == nil) ==> %s.Reader == old(%s.Reader)", erT, asp, asp)
	self := R(r.Name)
	consume := r.Kind == Struct && g.structOnly(self, map[string]bool{}) && g.boundOK(self, map[string]bool{})
	if consume {
		// C05: exactly the bytes of one record are taken from the stream, however the reader fragments its reads
		g.line("  ensures [CONSUME] err == nil ==> taken(ur(ior)) == old(taken(ur(ior))) + %s", g.sizeX(self, "*bbp"))
	}
	// on the stream side byte arrays share the byte heap with the reader's scratch buffer; the frame reasoning
	// this needs is slow (18-21 s per obligation), so records with byte / uint8 arrays are left out of the stream DEC
	decs := consume && g.Dec && g.decOK(self) && !g.hasByteArr(self, map[string]bool{})
	if decs {
		g.decEnsures(r, "err == nil", "bbp", "sid(ur(ior)), old(taken(ur(ior)))")
	}
	g.line("  modifies *bbp, %s", g.streamMods(asp, r))
	emitMake := func() {
		mk := "Make"
		if g.o.Private {
			mk = "make"
		}
		g.line("func %s%s", mk, n)
		g.line("  requires r != nil && okR(r)")
		g.line("  ensures [LATCH] okR(r) && sid(r.Reader) == old(sid(r.Reader)) && (old(r.Err) != nil ==> r.Err != nil)")
		g.line("  ensures [LATCH] (failed(r.Reader) && !old(failed(r.Reader))) ==> result1 != nil")
		g.line("  ensures [CONS] result1 == nil ==> r.Reader == old(r.Reader)")
		if consume {
			g.line("  ensures [CONSUME] result1 == nil ==> taken(r.Reader) == old(taken(r.Reader)) + %s", g.sizeX(self, "result0"))
		}
		if decs {
			g.decEnsures(r, "result1 == nil", "result0", "sid(r.Reader), old(taken(r.Reader))")
		}
		g.line("  modifies %s", g.streamMods("r", r))
	}
	defer emitMake()
	if r.Kind == Struct && len(r.Fields) == 0 {
		return
	}
	// loop invariants: the wrapper stays usable and keeps reading from the same root
	w := &walk{ord: 1}
	inv := func(k int, extra string) {
		g.line("  invariant loop %d: r != nil && okR(r) && sid(r.Reader) == old(sid(ur(ior)))", k)
		if r.Kind == Struct {
			g.line("  invariant loop %d: r.Reader == old(ur(ior))", k)
		} else {
			g.line("  invariant loop %d: baseReader == old(ur(ior))", k)
		}
		g.line("  invariant loop %d: (istype(ior, %s) ==> r == %s) && (!istype(ior, %s) ==> isfresh(r) && isfresh(r.buffer))", k, erT, asp, erT)
		g.line("  invariant loop %d: istype(ior, %s) ==> r.buffer == old(%s.buffer)", k, erT, asp)
		g.line("  invariant loop %d: (istype(ior, %s) && old(%s.Err) != nil) ==> r.Err != nil", k, erT, asp)
		if extra != "" {
			g.line("  invariant loop %d: %s", k, extra)
		}
	}
	var marks []string
	var prevBytes []string // byte-array fields decoded before the loop being described
	frozen := func(k int) {
		for _, pb := range prevBytes {
			g.line("  invariant loop %d: forall fk Loc :: lref(fk) == ref(%s) ==> mem(byte)[fk] == atentry(mem(byte)[fk])", k, pb)
		}
	}
	var walkArr func(t *Type, v string, depth int, pre string)
	walkArr = func(t *Type, v string, depth int, pre string) {
		if t.Kind == MapK {
			// the generator names the key variable of a map loop after its nesting depth
			k := w.ord
			w.ord++
			nn := ""
			if strings.HasPrefix(v, "*") {
				nn = strings.TrimPrefix(v, "*") + " != nil && "
			}
			inv(k, fmt.Sprintf("%s%s != nil", nn, v))
			walkArr(t.Elem, fmt.Sprintf("(%s)[k%d]", v, depth), depth+1, "")
			return
		}
		if t.Kind != Arr || (t.Elem.Kind == Prim && t.Elem.Name == "byte") {
			return
		}
		k := w.ord
		w.ord++
		nn := ""
		if strings.HasPrefix(v, "*") {
			nn = strings.TrimPrefix(v, "*") + " != nil && "
		}
		inv(k, fmt.Sprintf("%sranged(%d) == %s", nn, k, v))
		if consume && pre != "" && isByteT(t.Elem) {
			// a uint8 array decoded element by element: one byte each (byte arrays have no prefix-sum function)
			g.line("  invariant loop %d: r.Err == nil ==> taken(r.Reader) == old(taken(ur(ior))) + %s + 4 + it(%d)", k, pre, k)
			if decs {
				frozen(k)
				g.line("  invariant loop %d: atentry(r.Err) != nil ==> r.Err != nil", k)
				g.line("  invariant loop %d: r.Err == nil ==> len(ranged(%d)) == rle(r.Reader, old(taken(ur(ior))) + %s, 4)", k, k, pre)
				g.line("  invariant loop %d: r.Err == nil ==> (forall dj int :: 0 <= dj && dj < it(%d) ==> ranged(%d)[dj] == rbyte(sid(r.Reader), old(taken(ur(ior))) + %s + 4 + dj))", k, k, k, pre)
			}
			return
		}
		if consume && pre != "" {
			sz := fmt.Sprintf("%s(ranged(%d), it(%d))", g.fn("sizeel", t.ID()), k, k)
			szNext := fmt.Sprintf("%s(ranged(%d), it(%d) + 1)", g.fn("sizeel", t.ID()), k, k)
			g.line("  invariant loop %d: (r.Err == nil ==> taken(r.Reader) == old(taken(ur(ior))) + %s + 4 + %s) && UnfI(%s)", k, pre, sz, sz)
			if decs && g.decOK(t) {
				off := fmt.Sprintf("%s(ranged(%d), dj)", g.fn("sizeel", t.ID()), k)
				if fs := g.s.FixedSize(t.Elem); fs > 0 {
					off = fmt.Sprintf("dj * %d", fs)
				}
				// the error latch across the loop: what was decoded before the loop stays meaningful after it
				frozen(k)
				g.line("  invariant loop %d: atentry(r.Err) != nil ==> r.Err != nil", k)
				g.line("  invariant loop %d: r.Err == nil ==> len(ranged(%d)) == rle(r.Reader, old(taken(ur(ior))) + %s, 4)", k, k, pre)
				g.line("  invariant loop %d: r.Err == nil ==> (forall dj int :: 0 <= dj && dj < it(%d) ==> %s(sid(r.Reader), old(taken(ur(ior))) + %s + 4 + %s, ranged(%d)[dj]))", k, k, g.fn("decs", t.Elem.ID()), pre, off, k)
			}
			for _, m := range marks {
				g.line("  invariant loop %d: %s", k, m)
			}
			saved := marks
			marks = append(append([]string(nil), marks...), fmt.Sprintf("UnfI(%s)", szNext))
			walkArr(t.Elem, fmt.Sprintf("ranged(%d)[it(%d)]", k, k), depth+1, fmt.Sprintf("%s + 4 + %s", pre, sz))
			marks = saved
			return
		}
		walkArr(t.Elem, fmt.Sprintf("ranged(%d)[it(%d)]", k, k), depth+1, "")
	}
	switch r.Kind {
	case Struct:
		pre := "0"
		for _, f := range r.Fields {
			v := g.fieldExpr(r, f)
			if consume {
				walkArr(f.Type, v, 1, pre)
				pre = pre + " + " + g.sizeX(f.Type, v)
				if f.Type.Kind == Arr && isByteT(f.Type.Elem) {
					prevBytes = append(prevBytes, v)
				}
			} else {
				walkArr(f.Type, v, 1, "")
			}
		}
	case Message:
		k := w.ord
		w.ord++
		inv(k, "")
		for _, f := range msgFields(r, false) {
			walkArr(f.Type, "*"+g.fieldExpr(r, f), 3, "")
		}
	case Union:
		k := w.ord
		w.ord++
		inv(k, "")
	}
}

// flat: the size/enc functions of values of type t read no heap (the value is its own footprint).
func (g *SpecGen) flat0(t *Type) bool { return len(g.rs[t.ID()]) == 0 }

// boundOK: the decoder of a value of type t can be shown to consume at least Size() bytes
// (arrays must have flat elements: the prefix-sum function then has an extensional frame lemma).
func (g *SpecGen) boundOK(t *Type, seen map[string]bool) bool {
	switch t.Kind {
	case Prim, EnumK:
		return true
	case Arr:
		return g.boundOK(t.Elem, seen)
	case MapK:
		return false
	case Rec:
		if seen[t.Name] {
			return false // recursive types: not attempted
		}
		seen[t.Name] = true
		defer delete(seen, t.Name)
		r := g.s.record(t.Name)
		for _, f := range r.Fields {
			if !g.boundOK(f.Type, seen) {
				return false
			}
		}
		for _, b := range r.Branches {
			if !g.boundOK(R(b.Name), seen) {
				return false
			}
		}
		return true
	}
	return false
}

// freshFor lists fresh(T) for every type reachable from record r (what its decoder may allocate).
func (g *SpecGen) freshFor(r *Record) string {
	seen := map[string]bool{}
	var order []string
	var visit func(t *Type)
	visit = func(t *Type) {
		if seen[t.ID()] {
			return
		}
		seen[t.ID()] = true
		if t.Elem != nil {
			visit(t.Elem)
		}
		if t.Kind == Rec {
			rr := g.s.record(t.Name)
			for _, f := range rr.Fields {
				visit(f.Type)
			}
			for _, b := range rr.Branches {
				visit(R(b.Name))
			}
		}
		if t.Kind != MapK {
			order = append(order, t.GoType(g.o))
		}
	}
	visit(R(r.Name))
	var items []string
	done := map[string]bool{}
	for _, te := range order {
		if !done[te] {
			done[te] = true
			items = append(items, "fresh("+te+")")
		}
	}
	return strings.Join(items, ", ")
}

// unmarshalContract: UnmarshalBebop on arbitrary bytes does not panic; when it succeeds the
// decoded value's Size() does not exceed the buffer (what parents rely on to advance).
func (g *SpecGen) unmarshalContract(r *Record) {
	n := GoTypeName(r.Name, g.o)
	self := R(r.Name)
	bound := g.boundOK(self, map[string]bool{})
	g.line("func (*%s).UnmarshalBebop", n)
	// the bound is stated for a zero-valued receiver (what the Make* wrappers and nested decoders pass)
	zero := "true"
	if r.Kind == Message {
		var zs []string
		for _, f := range r.Fields {
			zs = append(zs, g.fieldExpr(r, f)+" == nil")
		}
		if len(zs) > 0 {
			zero = strings.Join(zs, " && ")
		}
	} else if r.Kind == Union {
		var zs []string
		for _, b := range r.Branches {
			zs = append(zs, "bbp."+GoFieldName(r, b.Name, g.o)+" == nil")
		}
		if len(zs) > 0 {
			zero = strings.Join(zs, " && ")
		}
	}
	if bound {
		g.line("  ensures [BOUND] (old(%s) && err == nil) ==> %s <= len(buf)", zero, g.sizeX(self, "*bbp"))
	}
	if g.Dec && r.Kind == Struct && g.decOK(self) {
		// the decoded value is what the wire format prescribes for the bytes of the buffer, field by field
		g.decEnsures(r, "err == nil", "bbp", "mem")
	}
	if r.Kind == Message || r.Kind == Union {
		// a message / union is framed by its length prefix: a buffer that does not hold the whole declared
		// body is truncated input, whatever the body contains (e.g. fields this version does not know)
		hdr := 4 // message: the declared length counts the body including its terminator
		if r.Kind == Union {
			hdr = 5 // union: the declared length counts what follows the discriminator byte
		}
		g.line("  ensures [FRAMELEN] err == nil ==> len(buf) >= %d && %d + old(leval(buf, 0, 4)) <= len(buf)", hdr, hdr)
	}
	// no single make() requests memory out of proportion to the input still to be read
	g.line("  assert every after \"make(\": [ALLOC] lastalloc() <= %d * (len(buf) - at)", allocK)
	if g.hasMap(self) {
		g.line("  modifies *bbp, fresh(), tr(), hw(), alloc()")
	} else {
		g.line("  modifies *bbp, %s, tr(), hw(), alloc()", g.freshFor(r))
	}
	w := &walk{ord: 1}
	if g.hasMap(self) {
		// safety only: cursor invariants for every loop, in source order
		switch r.Kind {
		case Struct:
			for _, f := range r.Fields {
				g.walkDecSafe(f.Type, g.fieldExpr(r, f), 1, false, w)
			}
		case Message:
			k := w.ord
			w.ord++
			g.line("  invariant loop %d: 0 <= at && at <= len(buf) && len(buf) + 4 <= len(old(buf))", k)
			for _, f := range msgFields(r, false) {
				p := g.fieldExpr(r, f)
				w.nn = p + " != nil"
				g.walkDecSafe(f.Type, "*"+p, 3, true, w)
				w.nn = ""
			}
		case Union:
			k := w.ord
			w.ord++
			g.line("  invariant loop %d: 0 <= at && at <= len(buf) && len(buf) + 4 <= len(old(buf))", k)
		}
		return
	}
	switch r.Kind {
	case Struct:
		pre := "0"
		w.dec = g.Dec && g.decOK(self)
		for _, f := range r.Fields {
			v := g.fieldExpr(r, f)
			g.walkDec(f.Type, v, pre, bound, w)
			pre = pre + " + " + g.sizeX(f.Type, v)
		}
	case Message, Union:
		// loop 1 is the dispatch loop over field indices / the discriminator
		k := w.ord
		w.ord++
		w.zero = zero
		g.line("  invariant loop %d: 0 <= at && at <= len(buf) && len(buf) + 4 <= len(old(buf))", k)
		var sum []string
		if r.Kind == Message {
			for _, f := range msgFields(r, true) {
				p := g.fieldExpr(r, f)
				sum = append(sum, fmt.Sprintf("ite(%s != nil, 1 + %s, 0)", p, g.sizeX(f.Type, "*"+p)))
			}
		}
		if bound && r.Kind == Message {
			total := "0"
			if len(sum) > 0 {
				total = strings.Join(sum, " + ")
			}
			g.line("  invariant loop %d: old(%s) ==> %s <= at", k, zero, total)
		}
		if r.Kind == Message {
			for i, f := range msgFields(r, false) {
				p := g.fieldExpr(r, f)
				others := "0"
				var os []string
				for j, x := range msgFields(r, true) {
					_ = j
					if x.Name != f.Name {
						os = append(os, sum[indexOfField(msgFields(r, true), x.Name)])
					}
				}
				if len(os) > 0 {
					others = strings.Join(os, " + ")
				}
				_ = i
				w.sep = nil
				for _, x := range r.Fields {
					if x.Name == f.Name {
						continue
					}
					xp := g.fieldExpr(r, x)
					w.sep = append(w.sep, fmt.Sprintf("ref(%s) != ref(ranged(%%d))", xp))
					if x.Type.Kind == Arr {
						w.sep = append(w.sep, fmt.Sprintf("ref(*%s) != ref(ranged(%%d))", xp))
					}
				}
				g.walkDecMsg(f.Type, "*"+p, others, bound && !f.Deprecated, w)
			}
		}
	}
}

func indexOfField(fs []Field, name string) int {
	for i, f := range fs {
		if f.Name == name {
			return i
		}
	}
	return -1
}

// walkDec emits the loop invariants of a struct's UnmarshalBebop for one field value.
func (g *SpecGen) walkDec(t *Type, v, pre string, bound bool, w *walk) {
	if t.Kind != Arr || isByteT(t.Elem) {
		return
	}
	k := w.ord
	w.ord++
	g.line("  invariant loop %d: 0 <= at && at <= len(buf) && ranged(%d) == %s", k, k, v)
	if fs := g.s.FixedSize(t.Elem); fs > 0 {
		g.line("  invariant loop %d: at + (len(ranged(%d)) - it(%d)) * %d <= len(buf)", k, k, k, fs)
	}
	sz := fmt.Sprintf("%s(ranged(%d), it(%d))", g.fn("sizeel", t.ID()), k, k)
	szNext := fmt.Sprintf("%s(ranged(%d), it(%d) + 1)", g.fn("sizeel", t.ID()), k, k)
	if bound {
		g.line("  invariant loop %d: at == %s + 4 + %s && UnfI(%s)", k, pre, sz, sz)
	}
	if bound && w.dec && g.decOK(t) {
		// DEC: the count and the elements decoded so far are what the bytes at their positions prescribe
		off := fmt.Sprintf("%s(ranged(%d), dj)", g.fn("sizeel", t.ID()), k)
		if fs := g.s.FixedSize(t.Elem); fs > 0 {
			off = fmt.Sprintf("dj * %d", fs)
		}
		g.line("  invariant loop %d: len(ranged(%d)) == leval(buf, %s, 4)", k, k, pre)
		g.line("  invariant loop %d: forall dj int :: 0 <= dj && dj < it(%d) ==> %s(buf[%s + 4 + %s:], ranged(%d)[dj])", k, k, g.fn("dec", t.Elem.ID()), pre, off, k)
	}
	for _, m := range w.marks {
		g.line("  invariant loop %d: %s", k, m)
	}
	saved := w.marks
	if bound {
		w.marks = append(append([]string(nil), w.marks...), fmt.Sprintf("UnfI(%s)", szNext))
	}
	g.walkDec(t.Elem, fmt.Sprintf("ranged(%d)[it(%d)]", k, k), fmt.Sprintf("%s + 4 + %s", pre, sz), bound, w)
	w.marks = saved
}

// walkDecSafe emits cursor invariants (no size bookkeeping) for the loops that decode a value of type t
// stored in v; depth is the nesting depth the generator uses to name its loop variables (k1, k2, ...).
func (g *SpecGen) walkDecSafe(t *Type, v string, depth int, inMsg bool, w *walk) {
	base := "0 <= at && at <= len(buf)"
	if inMsg {
		base += " && len(buf) + 4 <= len(old(buf))"
	}
	if w.nn != "" {
		base += " && " + w.nn
	}
	switch t.Kind {
	case Arr:
		if isByteT(t.Elem) {
			return
		}
		k := w.ord
		w.ord++
		g.line("  invariant loop %d: %s && ranged(%d) == %s", k, base, k, v)
		if fs := g.s.FixedSize(t.Elem); fs > 0 {
			g.line("  invariant loop %d: at + (len(ranged(%d)) - it(%d)) * %d <= len(buf)", k, k, k, fs)
		}
		g.walkDecSafe(t.Elem, fmt.Sprintf("ranged(%d)[it(%d)]", k, k), depth+1, inMsg, w)
	case MapK:
		k := w.ord
		w.ord++
		g.line("  invariant loop %d: %s && %s != nil", k, base, v)
		g.walkDecSafe(t.Elem, fmt.Sprintf("(%s)[k%d]", v, depth), depth+1, inMsg, w)
	}
}

// walkDecMsg emits the invariants of loops nested in a message's dispatch loop.
func (g *SpecGen) walkDecMsg(t *Type, v, others string, bound bool, w *walk) {
	if t.Kind != Arr || isByteT(t.Elem) {
		return
	}
	k := w.ord
	w.ord++
	nn := "true"
	if strings.HasPrefix(v, "*") {
		nn = strings.TrimPrefix(v, "*") + " != nil"
	}
	g.line("  invariant loop %d: 0 <= at && at <= len(buf) && len(buf) + 4 <= len(old(buf)) && %s && ranged(%d) == %s", k, nn, k, v)
	for _, sp := range w.sep {
		g.line("  invariant loop %d: "+sp, k, k)
	}
	if fs := g.s.FixedSize(t.Elem); fs > 0 {
		g.line("  invariant loop %d: at + (len(ranged(%d)) - it(%d)) * %d <= len(buf)", k, k, k, fs)
	}
	sz := fmt.Sprintf("%s(ranged(%d), it(%d))", g.fn("sizeel", t.ID()), k, k)
	szNext := fmt.Sprintf("%s(ranged(%d), it(%d) + 1)", g.fn("sizeel", t.ID()), k, k)
	if bound {
		g.line("  invariant loop %d: (old(%s) ==> %s + 1 + 4 + %s <= at) && UnfI(%s)", k, w.zero, others, sz, sz)
	}
	for _, m := range w.marks {
		g.line("  invariant loop %d: %s", k, m)
	}
	saved := w.marks
	if bound {
		w.marks = append(append([]string(nil), w.marks...), fmt.Sprintf("UnfI(%s)", szNext))
	}
	g.walkDecMsg(t.Elem, fmt.Sprintf("ranged(%d)[it(%d)]", k, k), fmt.Sprintf("%s + 1 + 4 + %s - 1", others, sz), bound, w)
	w.marks = saved
}

// makeContracts: the Make* wrappers return a fresh value; FromBytes inherits the bound.
func (g *SpecGen) makeContracts(r *Record) {
	n := GoTypeName(r.Name, g.o)
	self := R(r.Name)
	mk := "Make"
	if g.o.Private {
		mk = "make"
	}
	g.line("func %s%sFromBytes", mk, n)
	if g.boundOK(self, map[string]bool{}) {
		g.line("  ensures [BOUND] result1 == nil ==> %s <= len(buf)", g.sizeX(self, "result0"))
	}
	if g.Dec && r.Kind == Struct && g.decOK(self) {
		g.decEnsures(r, "result1 == nil", "result0", "mem")
	}
	if g.hasMap(self) {
		g.line("  modifies fresh(), tr(), hw(), alloc()")
	} else {
		g.line("  modifies %s, tr(), hw(), alloc()", g.freshFor(r))
	}
}

const ewT = "*iohelp.ErrorWriter"

// encodeContract: EncodeBebop writes the reference encoding to the underlying writer
// unless an error is latched, and every failure of that writer surfaces as an error.
func (g *SpecGen) encodeContract(r *Record) {
	V := g.V(g.o.Ptr)
	self := R(r.Name)
	g.line("func %s.EncodeBebop", g.recvSwitch(r))
	g.line("  requires okWI(iow)")
	g.line("  requires %s <= 4611686018427387904", g.sizeX(self, V))
	if g.hasByteArr(self, map[string]bool{}) {
		g.line("  requires istype(iow, %s) ==> (forall k Loc :: ref(mem([]byte)[k]) != ref(asptr(iow, %s).buffer))", ewT, ewT)
		if r.Kind == Struct {
			for _, f := range r.Fields {
				if f.Type.Kind == Arr && isByteT(f.Type.Elem) {
					g.line("  requires istype(iow, %s) ==> ref(%s) != ref(asptr(iow, %s).buffer)", ewT, g.fieldExpr(r, f), ewT)
				}
			}
		}
	}
	if r.Kind == Message {
		for _, f := range r.Fields {
			if f.Type.Kind == Prim && (isByteT(f.Type) || f.Type.Name == "guid") {
				// the pointee lives in the byte heap: it must not be the writer's scratch buffer
				g.line("  requires istype(iow, %s) ==> ref(%s) != ref(asptr(iow, %s).buffer)", ewT, g.fieldExpr(r, f), ewT)
			}
		}
	}
	g.line("  ensures [LATCH] (failed(uw(iow)) && !old(failed(uw(iow)))) ==> err != nil")
	g.line("  ensures [LATCH] istype(iow, %s) ==> okW(asptr(iow, %s)) && (err != nil ==> asptr(iow, %s).Err != nil) && (old(asptr(iow, %s).Err) != nil ==> asptr(iow, %s).Err != nil)", ewT, ewT, ewT, ewT, ewT)
	g.line("  ensures [ENC] err == nil ==> written(uw(iow)) == old(%s)", g.encX(self, "written(uw(iow))", V))
	g.line("  modifies asptr(iow, %s).Err, asptr(iow, %s).buffer[0:8], written(), failed(), fresh(iohelp.ErrorWriter), fresh(byte), tr(), hw(), alloc()", ewT, ewT)
	if r.Kind == Struct && len(r.Fields) == 0 {
		return
	}
	w := &walk{ord: 1, bytes: g.hasByteArr(self, map[string]bool{})}
	start := "old(written(uw(iow)))"
	switch r.Kind {
	case Struct:
		tr := start
		for _, f := range r.Fields {
			v := g.fieldExpr(r, f)
			g.walkStream(f.Type, v, tr, w)
			tr = "oh(" + g.encX(f.Type, tr, v) + ")"
		}
	case Message:
		tr := fmt.Sprintf("Ew4(%s, u32w(oh(%s) - 4))", start, g.sizeX(self, V))
		for _, f := range msgFields(r, true) {
			v := "*" + g.fieldExpr(r, f)
			g.walkStream(f.Type, v, fmt.Sprintf("snoc(%s, %d)", tr, f.Index), w)
			tr = fmt.Sprintf("ite(%s != nil, oh(%s), %s)", g.fieldExpr(r, f), g.encX(f.Type, fmt.Sprintf("snoc(%s, %d)", tr, f.Index), v), tr)
		}
	case Union:
		hdr := fmt.Sprintf("Ew4(%s, u32w(oh(%s) - 5))", start, g.sizeX(self, V))
		for i, b := range r.Branches {
			v := "*bbp." + GoFieldName(r, b.Name, g.o)
			g.walkStream(R(b.Name), v, fmt.Sprintf("snoc(%s, %d)", hdr, r.BranchIx[i]), w)
		}
	}
}

// walkStream emits the loop invariants of EncodeBebop for one field value.
func (g *SpecGen) walkStream(t *Type, v, tr string, w *walk) {
	if t.Kind != Arr || (t.Elem.Kind == Prim && t.Elem.Name == "byte") {
		return
	}
	k := w.ord
	w.ord++
	en := fmt.Sprintf("oh(%s(Ew4(%s, u32w(len(ranged(%d)))), ranged(%d), it(%d)))", g.fn("encel", t.ID()), tr, k, k, k)
	if isByteT(t.Elem) {
		// uint8 arrays are streamed element by element: the raw run grows one byte at a time
		en = fmt.Sprintf("tr.raw(Ew4(%s, u32w(len(ranged(%d)))), old(mem(byte)), loc(ranged(%d)), it(%d))", tr, k, k, k)
		g.line("  invariant loop %d: ref(ranged(%d)) != ref(w.buffer)", k, k)
	}
	if w.bytes {
		g.line("  invariant loop %d: forall k Loc :: allocated(k) && ref(k) != ref(w.buffer) ==> mem(byte)[k] == old(mem(byte))[k]", k)
	}
	g.line("  invariant loop %d: istype(iow, %s) ==> w.buffer == old(asptr(iow, %s).buffer)", k, ewT, ewT)
	g.line("  invariant loop %d: ranged(%d) == %s", k, k, v)
	g.line("  invariant loop %d: okW(w)", k)
	g.line("  invariant loop %d: w.Writer == uw(iow)", k)
	g.line("  invariant loop %d: w != nil && (istype(iow, %s) ==> w == asptr(iow, %s)) && (!istype(iow, %s) ==> isfresh(w) && isfresh(w.buffer))", k, ewT, ewT, ewT)
	g.line("  invariant loop %d: (old(asptr(iow, %s).Err) != nil && istype(iow, %s)) ==> w.Err != nil", k, ewT, ewT)
	g.line("  invariant loop %d: (w.Err == nil ==> written(w.Writer) == %s) && UnfT(%s)", k, en, en)
	if !isByteT(t.Elem) && g.s.FixedSize(t.Elem) == 0 {
		// nested encoders need the element's size bound: element sizes are below the (bounded) total
		g.line("  invariant loop %d: UnfI(oh(%s(ranged(%d), it(%d) + 1)))", k, g.fn("sizeel", t.ID()), k, k)
		for _, m := range w.marks {
			g.line("  invariant loop %d: %s", k, m)
		}
		w.marks = append(append([]string(nil), w.marks...), fmt.Sprintf("UnfI(oh(%s(ranged(%d), it(%d) + 1)))", g.fn("sizeel", t.ID()), k, k))
	}
	for _, fr := range append(append([]string(nil), w.frames...), g.copyFrames(t.Elem)...) {
		g.line("  invariant loop %d: %s", k, fr)
	}
	savedF := w.frames
	w.frames = append(append([]string(nil), w.frames...), g.copyFrames(t.Elem)...)
	defer func() { w.frames = savedF }()
	g.walkStream(t.Elem, fmt.Sprintf("ranged(%d)[it(%d)]", k, k), en, w)
}

// presentFields lists message fields in index order, skipping deprecated ones when enc is true.
func msgFields(r *Record, skipDeprecated bool) []Field {
	fs := append([]Field(nil), r.Fields...)
	sort.SliceStable(fs, func(i, j int) bool { return fs[i].Index < fs[j].Index })
	var out []Field
	for _, f := range fs {
		if skipDeprecated && f.Deprecated {
			continue
		}
		out = append(out, f)
	}
	return out
}

func (g *SpecGen) sizeContract(r *Record) {
	n := GoTypeName(r.Name, g.o)
	V := g.V(g.o.Ptr)
	g.line("func %s.Size", g.recvSwitch(r))
	g.line("  requires %s <= 4611686018427387904", g.sizeX(R(r.Name), V))
	g.line("  ensures result == old(%s)", g.sizeX(R(r.Name), V))
	w := &walk{ord: 1}
	switch r.Kind {
	case Struct:
		pre := "0"
		for _, f := range r.Fields {
			v := g.fieldExpr(r, f)
			g.walkSize(f.Type, v, pre, w)
			pre = pre + " + " + g.sizeX(f.Type, v)
		}
	case Message:
		pre := "5"
		for _, f := range msgFields(r, true) {
			v := "*" + g.fieldExpr(r, f)
			g.walkSize(f.Type, v, pre+" + 1", w)
			pre = fmt.Sprintf("%s + ite(%s != nil, 1 + %s, 0)", pre, g.fieldExpr(r, f), g.sizeX(f.Type, v))
		}
	case Union:
		for i, b := range r.Branches {
			_ = i
			v := "*bbp." + GoFieldName(r, b.Name, g.o)
			g.walkSize(R(b.Name), v, "4 + 1", w)
		}
	}
	_ = n
}

// walkSize emits the loop invariants of Size() for one field value.
func (g *SpecGen) walkSize(t *Type, v, pre string, w *walk) {
	if t.Kind != Arr || (g.s.FixedSize(t.Elem) > 0 && t.Elem.Kind != EnumK) {
		// the generator folds arrays of fixed-width primitives into len*width; arrays of enums are counted in a loop
		return
	}
	k := w.ord
	w.ord++
	sz := fmt.Sprintf("oh(%s(ranged(%d), it(%d)))", g.fn("sizeel", t.ID()), k, k)
	szNext := fmt.Sprintf("oh(%s(ranged(%d), it(%d) + 1))", g.fn("sizeel", t.ID()), k, k)
	g.line("  invariant loop %d: ranged(%d) == %s", k, k, v)
	g.line("  invariant loop %d: bodyLen == %s + 4 + %s && UnfI(%s) && UnfI(%s)", k, pre, sz, sz, szNext)
	for _, fr := range append(append([]string(nil), w.frames...), g.copyFrames(t.Elem)...) {
		g.line("  invariant loop %d: %s", k, fr)
	}
	for _, m := range w.marks {
		g.line("  invariant loop %d: %s", k, m)
	}
	saved := w.marks
	savedF := w.frames
	w.frames = append(append([]string(nil), w.frames...), g.copyFrames(t.Elem)...)
	defer func() { w.frames = savedF }()
	w.marks = append(append([]string(nil), w.marks...), fmt.Sprintf("UnfI(%s)", szNext))
	g.walkSize(t.Elem, fmt.Sprintf("ranged(%d)[it(%d)]", k, k), fmt.Sprintf("%s + 4 + %s", pre, sz), w)
	w.marks = saved
}

func (g *SpecGen) marshalToContract(r *Record) {
	V := g.V(g.o.Ptr)
	self := R(r.Name)
	g.line("func %s.MarshalBebopTo", g.recvSwitch(r))
	g.line("  requires len(buf) >= %s && hw(buf) == off(buf)", g.sizeX(self, V))
	hasB := g.hasByteArr(self, map[string]bool{})
	if r.Kind == Message {
		for _, f := range r.Fields {
			if f.Type.Kind == Prim && (isByteT(f.Type) || f.Type.Name == "guid") {
				g.line("  requires ref(%s) != ref(buf)", g.fieldExpr(r, f))
			}
		}
	}
	if hasB {
		// the destination does not alias any byte array of the value being encoded
		g.line("  requires forall k Loc :: ref(mem([]byte)[k]) != ref(buf)")
		for _, f := range r.Fields {
			if f.Type.Kind == Arr && isByteT(f.Type.Elem) && r.Kind == Struct {
				g.line("  requires ref(%s) != ref(buf)", g.fieldExpr(r, f))
			}
		}
	}
	g.line("  ensures [SIZE] result == old(%s) && hw(buf) == off(buf) + result", g.sizeX(self, V))
	g.line("  ensures [ENC] tr(buf) == old(%s)", g.encX(self, "tr(buf)", V))
	// ENCP (the encoder's output decodes, by the reference, to the encoded value) is experimental: it discharges
	// for fixed-width fields and arrays of them but is slow, and GUIDs and strings need further lemmas; it is
	// not part of any claim and is only generated on request.
	encp := g.Dec && g.Encp && r.Kind == Struct && g.rtOK(self)
	if encp {
		// pointwise: the bytes written are bytes that the reference decoding maps back to the value
		// (counts are 32 bits on the wire: stated for values whose encoding is shorter than 4 GiB)
		pre := "0"
		for _, f := range r.Fields {
			v := g.fieldExpr(r, f)
			g.line("  ensures [ENCP] old(%s) < 4294967296 ==> %s(buf[%s:], %s)", g.sizeX(self, V), g.fn("dec", f.Type.ID()), pre, v)
			pre = pre + " + old(" + g.sizeX(f.Type, v) + ")"
		}
		_ = self // the record-level dec_T(buf, v) is the conjunction of the per-field clauses (definition of dec_T)
	}
	g.line("  modifies buf[0:%s], tr(buf), hw(buf)", g.sizeX(self, V))
	w := &walk{ord: 1, bytes: hasB, dec: encp}
	switch r.Kind {
	case Struct:
		at, tr := "0", "old(tr(buf))"
		for _, f := range r.Fields {
			v := g.fieldExpr(r, f)
			g.walkEnc(f.Type, v, at, tr, w)
			at = at + " + oh(" + g.sizeX(f.Type, v) + ")"
			tr = "oh(" + g.encX(f.Type, tr, v) + ")"
		}
	case Message:
		at := "4"
		tr := fmt.Sprintf("Ew4(old(tr(buf)), u32w(oh(%s) - 4))", g.sizeX(self, V))
		for _, f := range msgFields(r, true) {
			v := "*" + g.fieldExpr(r, f)
			g.walkEnc(f.Type, v, at+" + 1", fmt.Sprintf("snoc(%s, %d)", tr, f.Index), w)
			p := g.fieldExpr(r, f)
			at = fmt.Sprintf("%s + ite(%s != nil, 1 + oh(%s), 0)", at, p, g.sizeX(f.Type, v))
			tr = fmt.Sprintf("ite(%s != nil, oh(%s), %s)", p, g.encX(f.Type, fmt.Sprintf("snoc(%s, %d)", tr, f.Index), v), tr)
		}
	case Union:
		hdr := fmt.Sprintf("Ew4(old(tr(buf)), u32w(oh(%s) - 5))", g.sizeX(self, V))
		for i, b := range r.Branches {
			v := "*bbp." + GoFieldName(r, b.Name, g.o)
			g.walkEnc(R(b.Name), v, "4 + 1", fmt.Sprintf("snoc(%s, %d)", hdr, r.BranchIx[i]), w)
		}
	}
}

// walkEnc emits the loop invariants of MarshalBebopTo for one field value.
func (g *SpecGen) walkEnc(t *Type, v, at, tr string, w *walk) {
	if t.Kind != Arr || isByteT(t.Elem) {
		return
	}
	k := w.ord
	w.ord++
	sz := fmt.Sprintf("oh(%s(ranged(%d), it(%d)))", g.fn("sizeel", t.ID()), k, k)
	szNext := fmt.Sprintf("oh(%s(ranged(%d), it(%d) + 1))", g.fn("sizeel", t.ID()), k, k)
	en := fmt.Sprintf("oh(%s(Ew4(%s, u32w(len(ranged(%d)))), ranged(%d), it(%d)))", g.fn("encel", t.ID()), tr, k, k, k)
	g.line("  invariant loop %d: ranged(%d) == %s", k, k, v)
	g.line("  invariant loop %d: at == %s + 4 + %s && hw(buf) == off(buf) + at && UnfI(%s) && UnfI(%s)", k, at, sz, sz, szNext)
	g.line("  invariant loop %d: tr(buf) == %s && UnfT(%s)", k, en, en)
	if w.dec && g.decOK(t) {
		off := fmt.Sprintf("oh(%s(ranged(%d), dj))", g.fn("sizeel", t.ID()), k)
		if fs := g.s.FixedSize(t.Elem); fs > 0 {
			off = fmt.Sprintf("dj * %d", fs)
		}
		g.line("  invariant loop %d: forall fk Loc :: (lref(fk) == ref(buf) && lidx(fk) < off(buf) + %s + 4) ==> mem(byte)[fk] == atentry(mem(byte)[fk])", k, at)
		g.line("  invariant loop %d: len(ranged(%d)) < 4294967296 ==> len(ranged(%d)) == leval(buf, %s, 4)", k, k, k, at)
		g.line("  invariant loop %d: forall dj int :: 0 <= dj && dj < it(%d) ==> %s(buf[%s + 4 + %s:], ranged(%d)[dj])", k, k, g.fn("dec", t.Elem.ID()), at, off, k)
	}
	if w.bytes {
		g.line("  invariant loop %d: %s", k, byteFrameInv)
	}
	for _, fr := range append(append([]string(nil), w.frames...), g.copyFrames(t.Elem)...) {
		g.line("  invariant loop %d: %s", k, fr)
	}
	for _, m := range w.marks {
		g.line("  invariant loop %d: %s", k, m)
	}
	saved := w.marks
	savedF := w.frames
	w.frames = append(append([]string(nil), w.frames...), g.copyFrames(t.Elem)...)
	defer func() { w.frames = savedF }()
	w.marks = append(append([]string(nil), w.marks...), fmt.Sprintf("UnfI(%s)", szNext))
	g.walkEnc(t.Elem, fmt.Sprintf("ranged(%d)[it(%d)]", k, k), fmt.Sprintf("%s + 4 + %s", at, sz), en, w)
	w.marks = saved
}

func (g *SpecGen) marshalContract(r *Record) {
	V := g.V(g.o.Ptr)
	self := R(r.Name)
	g.line("func %s.MarshalBebop", g.recvSwitch(r))
	g.line("  requires %s <= 140737488355328", g.sizeX(self, V))
	g.line("  ensures [SIZE] len(result) == old(%s)", g.sizeX(self, V))
	g.line("  ensures [ENC] tr(result) == old(%s) && hw(result) == off(result) + len(result)", g.encX(self, "tr.empty", V))
	g.line("  modifies fresh(byte), tr(), hw(), alloc()")
}

// minWire is the least number of bytes any encoding of a value of type t takes.
func (g *SpecGen) minWire(t *Type) int {
	if n := g.s.FixedSize(t); n > 0 {
		return n
	}
	switch t.Kind {
	case Prim:
		return 4 // string
	case Arr, MapK:
		return 4
	case Rec:
		r := g.s.record(t.Name)
		switch r.Kind {
		case Message:
			return 5
		case Union:
			return 5
		case Struct:
			n := 0
			for _, f := range r.Fields {
				n += g.minWire(f.Type)
			}
			return n
		}
	}
	return 0
}
