package props

import (
	"strings"

	"gocv/internal/basis"
)

func init() { registry["C05"] = checkC05 }

// structOnlySchema: no record of the schema is a message or a union and no field is a map.
func structOnlySchema(s *basis.Schema) bool {
	if hasTag(s, "maps") {
		return false
	}
	for _, r := range s.AllRecords() {
		if r.Kind != basis.Struct {
			return false
		}
	}
	return true
}

// C05 (the consumption half): DecodeBebop takes from its reader exactly Size() bytes of the decoded value,
// however the reader fragments its reads. Decided for records built from structs, arrays, strings and
// primitives; for messages and unions the number of bytes consumed is fixed by the length prefix, not by the
// decoded value (input need not be canonical), and is not decided here.
func checkC05(r *Run) error {
	err := r.decoders(structOnlySchema, r.optsFor(false), func(key string) bool {
		return strings.Contains(key, "DecodeBebop") || isMakeStream(key)
	})
	if err == nil {
		// the stream readers of the runtime: each takes exactly the bytes of its value or latches an error
		err = r.verifyIohelp(func(k string) bool {
			return strings.Contains(k, "ErrorReader") || (!strings.Contains(k, "Bytes") && strings.Contains(k, ".Read"))
		})
	}
	r.Explanation = "For every struct-only record of the basis (structs, nested structs, arrays and nested arrays, strings, all primitives, enums) the generated DecodeBebop and Make* are verified against: err == nil ==> taken(reader) == old(taken(reader)) + Size(decoded value), with loop invariants that carry the prefix sum of element sizes. The reader is an arbitrary io.Reader under the assumed contract of io.ReadFull (any fragmentation of reads, any failure point); ghost taken() counts the bytes delivered by the root of the reader chain. The iohelp stream readers are verified against 'takes exactly k bytes or latches an error'. Not decided: that the values read back equal the values written (needs the functional decode contract), messages/unions/maps."
	r.Coverage["not_covered"] = "messages, unions, maps (consumption is fixed by the length prefix, not by Size() of the decoded value); equality of the decoded sequence with the encoded one"
	return err
}
