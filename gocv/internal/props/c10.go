package props

import "strings"

const rootPkg = "github.com/200sc/bebop"

func init() { registry["C10"] = checkC10 }

// frontEndFiles: the functions of these files make up the tokenizer and parser that ReadFile runs.
var c10Funcs = []string{
	"ReadFile", "newTokenReader", "(*github.com/200sc/bebop.tokenReader).", "(*github.com/200sc/bebop.tokenTree).find",
	"simpleToken$1", "numberToken", "lineCommentToken", "blockCommentToken", "stringLiteralToken",
	"expectAnyOfNext", "expectNext", "optNewline", "readEnumOptionValue", "readUntil", "readEnum", "readDeprecated",
	"skipEndOfLineComments", "readStruct", "readFieldType", "readMessage", "readUnion", "readConst", "readOpCode",
	"readBitflagExpr", "parseBitflagExpr", "parseParenExpr", "evaluateBitflagExpr", "evaluateBitflagExpSigned", "evaluateBitflagExprUnsigned", "readBlockComment", "sanitizeComment", "readError", "decodeIntegerType", "bytesToOpCode", "parseCommentTag", "isHex", "isNumeric",
}

// C10: ReadFile never panics, reports reader failures, and reports success only at the end of the input.
// Decided by the contracts of tokenize.go / token_tree.go / parse.go in /repo/verif_contracts.go:
// SAFE (no index/slice/nil/map panic, unreadByte only after a read), the error-record discipline
// (entries kept, only the io.EOF marker of this call removed, I/O failures recorded by a non-EOF entry),
// and the ERRRET / CONSUMED assertions at the return statements of ReadFile.
func checkC10(r *Run) error {
	e, err := r.loadEngine(r.Repo, ".")
	if err != nil {
		return err
	}
	sel := Selection{FuncFilter: func(key string) bool {
		k := strings.TrimPrefix(key, rootPkg+".")
		for _, f := range c10Funcs {
			if k == f || (strings.HasSuffix(f, ".") && strings.HasPrefix(key, f)) || (strings.HasPrefix(f, "(") && strings.HasPrefix(key, f)) {
				return true
			}
		}
		return false
	}}
	if err := r.verify(e, []string{rootPkg}, sel, false); err != nil {
		return err
	}
	r.Explanation = "The tokenizer and parser functions reachable from ReadFile are verified against contracts kept in /repo/verif_contracts.go: absence of panics (index, slice, nil, map, the unreadByte panic, decodeIntegerType's panic, no negative shift count in [flags] expressions), preservation of the tokenizer invariant okTR (an I/O error of the reader is always on record; the record never holds an io.EOF marker between calls; comment tokens have the shape the parser slices), the rule that Next removes only the io.EOF marker it has just added, and at ReadFile's return statements: every return but the last returns a non-nil error (ERRRET), and at the last the error record is empty, the reader has not failed and its last read reported io.EOF (CONSUMED). Termination and the appended-definition clause are not decided by contracts (see DESIGN.md)."
	return nil
}
