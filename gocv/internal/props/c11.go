package props

import (
	"gocv/internal/vc"
)

func init() { registry["C11"] = checkC11 }

// C11 (one part of it): the pending-attribute discipline of ReadFile's top-level loop. What "[opcode(...)]",
// "[flags]", "readonly" and doc-comment lines say is carried in loop-local variables for the next definition;
// the contract of ReadFile asserts that every iteration that handles a definition leaves all of them cleared
// (PENDING) and that a record takes exactly the pending values when it is appended (ATTACH); the contracts of
// readStruct / readMessage / readUnion / readEnum assert the same for the per-field pending state. The rest of C11
// (the File equals what the text says, layout independence) is not decided by this check.
func checkC11(r *Run) error {
	e, err := r.loadEngine(r.Repo, ".")
	if err != nil {
		return err
	}
	sel := Selection{
		FuncFilter: func(key string) bool {
			switch key {
			case rootPkg + ".ReadFile", rootPkg + ".readStruct", rootPkg + ".readMessage", rootPkg + ".readUnion", rootPkg + ".readEnum":
				return true
			}
			return false
		},
		Keep: func(o *vc.Obligation) bool {
			return o.Class == "COVER" || (o.Class == "ASSERT" && (o.Label == "PENDING" || o.Label == "ATTACH")) || o.Class == "INV-ENTRY" || o.Class == "INV-PRES"
		},
	}
	if err := r.verify(e, []string{rootPkg}, sel, false); err != nil {
		return err
	}
	r.Explanation = "Partial: only the pending-attribute discipline of ReadFile's top-level loop is decided. The contract of ReadFile (in /repo/verif_contracts.go) asserts, for all token sequences, that after the statement that ends an iteration the pending flags / read-only marker / opcode / comment lines are all cleared (PENDING) and that a struct, message or union takes exactly the pending opcode and read-only marker at the moment it is appended (ATTACH). The same discipline is asserted for the per-field pending state (deprecation and its message, comment lines, comment tags) inside readStruct, readMessage, readUnion and readEnum (for enum options only the deprecation part). The content of comments, type expressions, enum values and layout independence are not covered."
	return nil
}
