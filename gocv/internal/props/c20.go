package props

import (
	"fmt"
	"path/filepath"

	"gocv/internal/vc"
)

const iohelpPkg = "github.com/200sc/bebop/iohelp"

func init() { registry["C20"] = checkC20 }

// C20: iohelp primitives are exact inverses and never return stale data.
// Decided by: every function of iohelp.go against its byte-level contract
// (all classes), the round-trip lemmas, and the non-interference clauses.
func checkC20(r *Run) error {
	r.byteTheory = true
	e, err := r.loadEngine(r.Repo, "./iohelp")
	if err != nil {
		return err
	}
	// concrete harness first: replay aid for failed obligations + bounded validation of axiom U1
	hr, err := r.runHarness(r.Repo, "iohelp", filepath.Join(r.Verif, "harness", "iohelp_verif_test.go"), "TestVerifIohelp")
	if err != nil {
		return err
	}
	currentHarness = hr.Findings
	// inputs that need a >4 GiB buffer are only tried when an obligation asks for them
	bigTried := false
	r.onMissingInput = func(o *vc.Obligation) bool {
		if bigTried || !(contains(o.Func, "ReadStringBytes") && o.Class == "SAFE:slice") {
			return false
		}
		bigTried = true
		hb, err := r.runHarness(r.Repo, "iohelp", filepath.Join(r.Verif, "harness", "iohelp_verif_test.go"), "TestVerifIohelp", "VERIF_BIG=1")
		if err != nil {
			return false
		}
		currentHarness = append(currentHarness, hb.Findings...)
		return true
	}
	if err := r.verify(e, []string{iohelpPkg}, Selection{}, true); err != nil {
		return err
	}
	r.Bounded = append(r.Bounded, Bounded{
		What:  "execution of the real iohelp functions (validates axiom U1 on this machine; not counted as proved)",
		Bound: fmt.Sprintf("all 2^16 values of the 16-bit types, all 2^8 of the 8-bit types, boundary + seeded pseudo-random 32/64-bit patterns, buffer lengths 0..12 x counts 0..9, every failure point of every stream reader; kinds=%v", hr.Kinds),
		Cases: hr.Cases, Fail: len(hr.Findings)})
	r.BoundedCases = hr.Cases
	// harness failures that no failed obligation accounts for are violations in their own right
	failedFuncs := map[string]bool{}
	for _, v := range r.Violations {
		failedFuncs[v.Obligation] = true
	}
	for _, hf := range hr.Findings {
		if hf.used {
			continue
		}
		id := fmt.Sprintf("%s.%s/BOUNDED/%s", iohelpPkg, hf.Func, hf.Kind)
		if k := r.knownFor(id); k != nil {
			continue // reported once through the obligation it belongs to
		}
		if r.accountedFor(hf) {
			continue
		}
		r.boundedViolation(id, map[string]interface{}{"function": hf.Func, "kind": hf.Kind, "input": hf.Input, "got": hf.Got, "want": hf.Want})
	}
	r.Explanation = "All functions of iohelp/iohelp.go are verified against byte-level contracts (little-endian digit relation, GUID permutation, checked string bounds, stream/byte-slice agreement, error latching, non-interference of failed reads with the scratch buffer) by weakest-precondition VC generation over go/ssa naive form; every obligation is an SMT query raced on z3 4.8.12, z3 5.1.0 and cvc5."
	_ = vc.Prelude
	return nil
}

// accountedFor: a harness finding whose function already has a failed (known or violating) obligation of a matching class.
func (r *Run) accountedFor(hf *HarnessFinding) bool {
	for _, k := range r.KnownHit {
		if containsFunc(k, hf.Func) {
			return true
		}
	}
	for _, v := range r.Violations {
		if containsFunc(v.Obligation, hf.Func) {
			return true
		}
	}
	return false
}

func containsFunc(id, fn string) bool {
	return len(fn) > 0 && (contains(id, "."+fn+"/") || contains(id, "."+fn+"]"))
}

func contains(s, sub string) bool {
	for i := 0; i+len(sub) <= len(s); i++ {
		if s[i:i+len(sub)] == sub {
			return true
		}
	}
	return false
}
