package props

import (
	"fmt"
	"strings"

	"gocv/internal/basis"
	"gocv/internal/vc"
)

// unstable lists (schema, options, method) combinations whose functional obligations do not
// discharge reliably within the timeout on the unchanged tree; they are excluded from the
// functional claims (and listed in the evidence) rather than given a longer timeout.
func unstable(j *basis.Job, fnKey string) bool {
	if j.Opts.Ptr && (j.Schema.Name == "mmix" || j.Schema.Name == "uni") {
		// pointer receivers make the per-iteration copies of message / union elements escape to the heap: the two
		// records that loop over an array of messages (Mm: ls Leaf[]) or unions (Uw: us U[]) time out; every other
		// record of these schemas (Leaf, Wrap, U and its members) is verified under pointer receivers as well
		lk := strings.ToLower(fnKey)
		if !(strings.Contains(lk, ".mm).") || strings.Contains(lk, ".uw).")) {
			return false
		}
		return strings.Contains(fnKey, ".MarshalBebopTo") || strings.Contains(fnKey, ".Size") || strings.Contains(fnKey, ".MarshalBebop") || strings.Contains(fnKey, ".EncodeBebop")
	}
	return false
}

func hasTag(s *basis.Schema, tag string) bool {
	for _, t := range s.Tags {
		if t == tag {
			return true
		}
	}
	return false
}

// optsFor picks the option sets of a run: quick = the default set plus one more chosen by the
// seed; thorough = all 32.
func (r *Run) optsFor(all bool) []basis.Options {
	sets := basis.OptionSets(r.Tier, r.Seed)
	if r.Tier == "thorough" || all {
		return sets
	}
	pick := sets[1+int(uint64(r.Seed)%uint64(len(sets)-1))]
	return []basis.Options{{}, pick}
}

// genVerify runs the selected methods/classes of the generated code of the basis.
func (r *Run) genVerify(schemaOK func(*basis.Schema) bool, opts []basis.Options, methods []string, classOK func(o *vc.Obligation) bool) error {
	gs, err := r.genBasis(schemaOK, opts)
	if err != nil {
		return err
	}
	jobByPkg := map[string]*basis.Job{}
	var pkgs []string
	for _, j := range gs.Jobs {
		jobByPkg[j.PkgPath()] = j
		pkgs = append(pkgs, j.PkgPath())
	}
	var excluded []string
	sel := Selection{
		FuncFilter: func(key string) bool {
			ok := false
			for _, m := range methods {
				if strings.HasSuffix(key, "."+m) {
					ok = true
				}
			}
			if !ok {
				return false
			}
			for pp, j := range jobByPkg {
				if strings.Contains(key, pp+".") && unstable(j, key) {
					excluded = append(excluded, key)
					return false
				}
			}
			return true
		},
		Keep: classOK,
	}
	if err := r.verify(gs.E, pkgs, sel, false); err != nil {
		return err
	}
	r.Coverage["excluded_unstable"] = excluded
	var names []string
	for _, j := range gs.Jobs {
		names = append(names, j.Name)
	}
	r.Coverage["basis_packages"] = names
	r.Assumptions["the quantifier over schemas is bounded to the enumerated basis (DESIGN section 4); records with maps have no reference encoding (Go map order): their decoders are under safety contracts only by the reference functions"] = true
	r.Assumptions["reference lemmas (size >= 0, prefix sums monotone) hold by induction on well-formed heaps; the induction itself is not machine-checked"] = true
	r.Assumptions["encodings larger than 2^62 bytes (Size) / 2^47 bytes (MarshalBebop) are excluded by precondition"] = true
	r.Assumptions["the destination buffer does not alias byte arrays of the value being encoded"] = true
	return nil
}

func nonMap(s *basis.Schema) bool { return !hasTag(s, "maps") }

// C08 (encode half): writer failures surface; a nil return means exactly the reference bytes were written.
func checkC08(r *Run) error {
	err := r.genVerify(nonMap, r.optsFor(false), []string{"EncodeBebop"}, nil)
	if err != nil {
		return err
	}
	if err := r.decoders(nil, []basis.Options{{}}, func(key string) bool {
		return strings.Contains(key, "DecodeBebop") || isMakeStream(key)
	}); err != nil {
		return err
	}
	// the latch itself: ErrorWriter/ErrorReader and the stream helpers of iohelp
	r.byteTheory = true
	e, err := r.loadEngine(r.Repo, "./iohelp")
	if err != nil {
		return err
	}
	err = r.verify(e, []string{iohelpPkg}, Selection{FuncFilter: func(k string) bool {
		return strings.Contains(k, "ErrorWriter") || strings.Contains(k, "ErrorReader") || (!strings.Contains(k, "Bytes") && (strings.Contains(k, ".Write") || strings.Contains(k, ".Read")))
	}}, false)
	r.Explanation = "Typestate argument over ghost writer state: every generated EncodeBebop returns a non-nil error whenever the underlying io.Writer reported a failure during the call (object invariant failed(w) ==> ew.Err != nil of iohelp.ErrorWriter, preserved by every stream helper and by nested encoders, which share the wrapper), and when it returns nil the bytes accepted by the writer are exactly the reference encoding (= MarshalBebop's trace by C02). The failure point and error value are universally quantified by the assumed io.Writer contract. Decode side: every generated DecodeBebop / Make* returns a non-nil error whenever the underlying reader (root of the LimitedReader chain) failed during the call, does not panic under arbitrary faults, and restores the reader it was given when it succeeds."
	r.Coverage["not_covered"] = "map-typed fields"
	return err
}

var decMethods = []string{"UnmarshalBebop", "DecodeBebop"}

func isMake(k string) bool {
	i := strings.LastIndex(k, ".")
	return i >= 0 && (strings.HasPrefix(k[i+1:], "Make") || strings.HasPrefix(k[i+1:], "make"))
}

// decoders selects UnmarshalBebop, DecodeBebop and the Make* wrappers (MustUnmarshalBebop is exempt).
func (r *Run) decoders(schemaOK func(*basis.Schema) bool, opts []basis.Options, funcOK func(key string) bool) error {
	gs, err := r.genBasis(schemaOK, opts)
	if err != nil {
		return err
	}
	var pkgs []string
	for _, j := range gs.Jobs {
		pkgs = append(pkgs, j.PkgPath())
	}
	sel := Selection{FuncFilter: func(key string) bool {
		if strings.Contains(key, "Must") || strings.Contains(key, "must") {
			return false
		}
		if funcOK != nil && !funcOK(key) {
			return false
		}
		return strings.HasSuffix(key, ".UnmarshalBebop") || strings.HasSuffix(key, ".DecodeBebop") || isMake(key)
	}}
	if err := r.verify(gs.E, pkgs, sel, false); err != nil {
		return err
	}
	var names []string
	for _, j := range gs.Jobs {
		names = append(names, j.Name)
	}
	r.Coverage["basis_packages"] = names
	r.Assumptions["the quantifier over schemas is bounded to the enumerated basis (DESIGN section 4); maps are not yet covered"] = true
	r.Assumptions["receivers of decoders are non-nil; the Make* wrappers and nested decoders pass zero values"] = true
	r.Assumptions["spec-level lemmas about the reference size functions (extensional frame, monotone prefix sums) hold by induction; the induction is not machine-checked"] = true
	r.Assumptions["assumed contracts: io.ReadFull, io.ReadAll, io.LimitedReader as a pass-through window (ghost stream state keyed by the root of the reader chain)"] = true
	return nil
}

// C07: decoding arbitrary bytes never panics or runs away.
// verifyIohelp verifies the runtime functions a property of the generated code rests on (a caller is checked
// against their contracts only, so a change inside one of them is seen here, not in the generated code).
func (r *Run) verifyIohelp(filter func(key string) bool) error {
	r.byteTheory = true
	e, err := r.loadEngine(r.Repo, "./iohelp")
	if err != nil {
		return err
	}
	return r.verify(e, []string{iohelpPkg}, Selection{FuncFilter: filter}, false)
}

func checkC07(r *Run) error {
	err := r.decoders(nil, r.optsFor(false), nil)
	if err == nil {
		// the byte-slice readers the decoders call
		err = r.verifyIohelp(func(k string) bool { return strings.Contains(k, ".Read") && strings.Contains(k, "Bytes") })
	}
	r.Explanation = "Precondition-free sweep: every index, slice, nil dereference, type assertion, callee precondition and make() in UnmarshalBebop, DecodeBebop and the Make* wrappers of the basis is an obligation discharged for an arbitrary buffer / an arbitrary reader with arbitrary faults (loops carry cursor invariants derived from the schema description; parents rely on the proved bound Size(decoded) <= len(buf) of nested decoders). Memory: every make() on the byte path requests at most 64 bytes per byte of input still unread (obligation [ALLOC] at each allocation site). Termination: range loops are bounded by their (checked) counts and the message dispatch loop consumes at least one byte per iteration (cursor invariant); not discharged as a separate decreases obligation. Stream path: allocation from a count read off the stream cannot be checked against input that has not arrived (design-level; see DESIGN.md findings)."
	r.Coverage["not_covered"] = "MustUnmarshalBebop (documented unchecked variant); allocation bound on the stream path; records with map-typed fields are covered for safety and allocation, without the Size bound"
	return err
}

// C06 (safety half): truncated input never crashes; the error half needs the decode-functional contracts.
func checkC06(r *Run) error {
	err := r.decoders(nil, r.optsFor(false), nil)
	if err == nil {
		// every reader of the runtime, byte-slice and stream, and the sticky-error reader itself
		err = r.verifyIohelp(func(k string) bool { return strings.Contains(k, ".Read") || strings.Contains(k, "ErrorReader") })
	}
	r.Explanation = "A strict prefix of a valid encoding is a particular arbitrary byte string / a particular reader that fails with EOF at some offset: the no-panic, bounded-allocation and fault-latching obligations of C07/C08 are discharged for all of them at once (the cut point is universally quantified by the unconstrained buffer and by the assumed io.Reader contract). That a strict prefix yields a NON-NIL error (rather than a nil error with a partial value) needs the decode-functional contracts (input holds wire(v0) up to k < size) and is not yet claimed; stream side: a short read always latches (C20) and DecodeBebop returns the latched error (LATCH)."
	r.Coverage["not_covered"] = "the 'returns a non-nil error' half on the byte path (needs the decode-functional contracts)"
	return err
}

func init() {
	registry["C07"] = checkC07
	registry["C06"] = checkC06
	registry["C08"] = checkC08
	registry["C02"] = checkC02
	registry["C03"] = checkC03
	registry["C09"] = checkC09
}

var encMethods = []string{"Size", "MarshalBebopTo", "MarshalBebop", "EncodeBebop"}

// C02: all encoders emit the same bytes and Size() is their exact length.
func checkC02(r *Run) error {
	err := r.genVerify(nonMap, r.optsFor(false), encMethods, nil)
	if err == nil {
		// the writers the three encoders rest on (byte-slice and stream): that both families lay out every token the
		// same way is part of "all encoders emit the same bytes" (seeded change C02-d sat in WriteGUIDBytes alone)
		err = r.verifyIohelp(func(k string) bool { return strings.Contains(k, ".Write") || strings.Contains(k, "ErrorWriter") })
		r.byteTheory = false
	}
	r.Explanation = "For every record of the schema basis: Size() returns the schema-derived size; MarshalBebopTo returns it, advances the ghost high-water mark by exactly it, its ghost trace is the reference encoding whatever the buffer held before, and its frame is buf[0:size] (nothing outside the first Size() bytes is written); MarshalBebop returns a fresh buffer of that length holding the same trace. The iohelp writers both encoder families call (Write*Bytes into a buffer, Write* to the sticky-error writer) are verified against one byte-level token contract each, so the byte-slice and the stream encoders agree token by token. Proved per function, for all values, over go/ssa with loop invariants derived from the schema description."
	r.Coverage["not_covered"] = "map-typed fields"
	return err
}

// C03: the wire format against the reference (encode direction + byte layout of the tokens).
func checkC03(r *Run) error {
	// Size() is part of the wire format of messages and unions (their length prefix is Size()-4, taken from the
	// callee's contract at the call site): it is verified here as well (seeded change C03-e sat in Size() alone)
	err := r.genVerify(nonMap, r.optsFor(false), []string{"MarshalBebopTo", "MarshalBebop", "Size"}, func(o *vc.Obligation) bool {
		return o.Label == "ENC" || strings.HasPrefix(o.Class, "INV") || o.Class == "PRE" || o.Class == "COVER" || strings.HasPrefix(o.Class, "SAFE") ||
			(o.Class == "POST" && strings.HasSuffix(o.Func, ".Size"))
	})
	if err != nil {
		return err
	}
	// token layout: the byte-level contracts of iohelp (shared with C20)
	r.byteTheory = true
	e, err := r.loadEngine(r.Repo, "./iohelp")
	if err != nil {
		return err
	}
	err = r.verify(e, []string{iohelpPkg}, Selection{FuncFilter: func(k string) bool { return strings.Contains(k, "Bytes") || strings.Contains(k, ".Write") }}, false)
	if err != nil {
		return err
	}
	// decode direction, for records built from structs, arrays (of non-array elements), strings, enums and
	// primitives: the decoded value is what the wire format prescribes for the bytes at each position (DEC)
	r.Dec = true
	r.byteTheory = false
	err = r.decoders(structOnlySchema, r.optsFor(false), func(key string) bool {
		return strings.HasSuffix(key, ".UnmarshalBebop") || strings.HasSuffix(key, ".DecodeBebop") || isMake(key)
	})
	r.Dec = false
	r.Explanation = "Decode direction (structs, arrays of non-array elements, strings, enums, all primitives; UnmarshalBebop, DecodeBebop and the Make* wrappers): when the decoder succeeds, every field of the decoded value is what a pointwise reference decoding, derived from the schema description alone, prescribes for the bytes of the buffer — or, for the stream decoders, for the bytes the reader delivered — at that field's position — little-endian value of the right width and signedness, u32 count then the elements at their prefix-sum offsets, string length then bytes, GUID permutation, date ticks (clause DEC, with quantified loop invariants). Messages, unions, maps and arrays of arrays are not covered in this direction. Encode direction: the ghost trace of every generated byte encoder equals the reference wire function derived from the schema description alone (little-endian fixed-width tokens, u32-prefixed strings and arrays, messages as u32 body length + (index, value)* + 0, unions as u32 length + discriminator + body, enums as their base integer); the byte meaning of each token (digit relation, GUID permutation) is proved on the iohelp bodies. That every conformant encoding is ACCEPTED (completeness of the decoder) is not covered."
	r.Coverage["not_covered"] = "decode direction for messages, unions, maps, arrays of arrays; completeness of decoding; map-typed fields on the encode side"
	_ = fmt.Sprint
	return err
}

// C09: generator options never change what goes on the wire.
func checkC09(r *Run) error {
	small := func(s *basis.Schema) bool {
		if r.Tier == "thorough" {
			return nonMap(s)
		}
		switch s.Name {
		case "sprims", "sprimsnd", "sbig", "mprims0", "sarr0", "sarr2", "srec", "snest", "mmix", "uni":
			return true
		}
		return false
	}
	err := r.genVerify(small, r.optsFor(true), encMethods, nil)
	if err == nil {
		// the runtime functions that only option-specific code calls (shared-memory strings, unsafe Must* readers)
		// are part of what the options change: verify them here as well, not only under C20
		r.byteTheory = true
		var e *vc.Engine
		if e, err = r.loadEngine(r.Repo, "./iohelp"); err == nil {
			err = r.verify(e, []string{iohelpPkg}, Selection{FuncFilter: func(key string) bool {
				return strings.Contains(key, "SharedMemory") || strings.Contains(key, ".MustRead")
			}}, false)
		}
	}
	if err == nil {
		// decode side, for records built from structs, arrays of non-array elements, strings, enums and
		// primitives: under every option set both decoders satisfy the same pointwise reference decoding (DEC)
		r.Dec = true
		r.byteTheory = false
		decSmall := func(s *basis.Schema) bool {
			if r.Tier == "thorough" {
				return structOnlySchema(s) && small(s)
			}
			return s.Name == "sprimsnd" || s.Name == "sarr2" || s.Name == "srec2"
		}
		err = r.decoders(decSmall, r.optsFor(true), func(key string) bool {
			return strings.HasSuffix(key, ".UnmarshalBebop") || strings.HasSuffix(key, ".DecodeBebop") || isMake(key)
		})
		r.Dec = false
	}
	r.Explanation = "The same schema-derived contract (reference trace, size, frame) is verified against the code generated under every option set of the tier (quick: a pairwise-covering set of 6; thorough: all 32): every variant satisfies the one specification, hence all variants emit the same bytes. The iohelp readers that only option-specific code calls (shared-memory strings, Must* readers) are verified against the same byte-level contracts as their checked counterparts. Decode side: for struct-only records the decoders generated under every option set satisfy one and the same pointwise reference decoding of the input (clause DEC), so the options do not change what is decoded from a given input; messages, unions, maps and MustUnmarshalBebop are not covered on the decode side."
	return err
}

func isMakeStream(k string) bool { return isMake(k) && !strings.HasSuffix(k, "FromBytes") }
