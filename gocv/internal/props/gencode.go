package props

import (
	"fmt"
	"path/filepath"
	"strings"

	"gocv/internal/basis"
	"gocv/internal/vc"
)

// genSetup generates the basis with the repository's own generator, loads the
// generated packages and registers the schema-derived contracts.
type genSetup struct {
	E    *vc.Engine
	Jobs []*basis.Job
	Dir  string
}

func (r *Run) genBasis(filter func(*basis.Schema) bool, opts []basis.Options) (*genSetup, error) {
	r.nbasis++
	dir := filepath.Join(r.scratch, fmt.Sprintf("vbasis%d", r.nbasis))
	if err := mkdir(dir); err != nil {
		return nil, err
	}
	var schemas []*basis.Schema
	only := map[string]bool{}
	if r.ID != "GEN" { // development aid: GEN_SCHEMAS restricts any check to the named schemas (never set by MANIFEST commands)
		for _, n := range strings.Split(getenv("GEN_SCHEMAS", ""), ",") {
			if n != "" {
				only[n] = true
			}
		}
	}
	for _, s := range basis.Enumerate(r.Tier, r.Seed) {
		if len(only) > 0 && !only[s.Name] {
			continue
		}
		if filter == nil || filter(s) {
			schemas = append(schemas, s)
		}
	}
	if opts == nil {
		opts = basis.OptionSets(r.Tier, r.Seed)
	}
	if r.Tier == "thorough" {
		// thorough: one representative schema of every family under all 32 option sets, every other schema
		// (including the additional, deeper ones of this tier) under the pairwise-covering option sets — not
		// the full product, which takes many hours without adding shapes
		quickSchemas := map[string]bool{"sprims": true, "sarr2": true, "srec2": true, "mmix": true, "uni": true, "smap": true}
		quickOpts := map[string]bool{}
		for _, o := range basis.OptionSets("quick", r.Seed) {
			quickOpts[o.Suffix()] = true
		}
		basis.Pair = func(s *basis.Schema, o basis.Options) bool { return quickSchemas[s.Name] || quickOpts[o.Suffix()] }
		defer func() { basis.Pair = nil }()
	}
	jobs, err := basis.Generate(dir, r.Repo, schemas, opts)
	if err != nil {
		return nil, err
	}
	var ok []*basis.Job
	for _, j := range jobs {
		if j.ReadErr != "" || j.GenErr != "" {
			// a basis schema is valid Bebop by construction: rejection is a finding of the C12/C13 stand-in, not of this check
			r.Assumptions[fmt.Sprintf("basis schema %s (%s) was rejected by the repository: %s%s", j.Schema.Name, j.Opts, j.ReadErr, j.GenErr)] = true
			removeAll(j.Dir)
			continue
		}
		ok = append(ok, j)
	}
	vc.Tolerant = true
	e, err := r.loadEngine(dir, "./gen/...")
	vc.Tolerant = false
	if err != nil {
		return nil, fmt.Errorf("generated code does not load: %v", err)
	}
	if len(e.BadPkgs) > 0 {
		// the repository accepted the schema and emitted Go that does not compile: a finding about C12
		// (whatever is accepted compiles), not about the property this check decides; the package is left out
		var kept []*basis.Job
		for _, j := range ok {
			if msgs, isBad := e.BadPkgs[j.PkgPath()]; isBad {
				r.Assumptions[fmt.Sprintf("basis package %s left out: the generated code does not compile (%s)", j.Name, trunc(strings.Join(msgs, "; "), 200))] = true
				continue
			}
			kept = append(kept, j)
		}
		ok = kept
	}
	for _, j := range ok {
		g := basis.NewSpecGen(e, j)
		g.Dec = r.Dec || getenv("GEN_DEC", "") != ""
		g.Encp = getenv("GEN_ENCP", "") != ""
		if err := g.Generate(); err != nil {
			return nil, fmt.Errorf("%s: %v", j.Name, err)
		}
	}
	r.Coverage["schema_basis"] = map[string]interface{}{"bounded": true, "schemas": len(schemas), "option_sets": len(opts), "packages": len(ok)}
	return &genSetup{E: e, Jobs: ok, Dir: dir}, nil
}

func init() { registry["GEN"] = checkGenDebug }

// checkGenDebug is a development aid: verify everything under contract in the basis and list failures.
func checkGenDebug(r *Run) error {
	want := strings.Split(getenv("GEN_SCHEMAS", ""), ",")
	gs, err := r.genBasis(func(s *basis.Schema) bool {
		if want[0] == "" {
			return true
		}
		for _, w := range want {
			if s.Name == w {
				return true
			}
		}
		return false
	}, genDebugOpts())
	if err != nil {
		return err
	}
	var pkgs []string
	for _, j := range gs.Jobs {
		pkgs = append(pkgs, j.PkgPath())
	}
	only := getenv("GEN_FUNC", "")
	return r.verify(gs.E, pkgs, Selection{FuncFilter: func(k string) bool { return only == "" || strings.Contains(k, only) }}, false)
}

func genDebugOpts() []basis.Options {
	if getenv("GEN_OPTS", "") == "all" {
		return nil // the tier's option sets
	}
	if o := getenv("GEN_OPTS", ""); len(o) == 5 {
		return []basis.Options{{Ptr: o[0] != '0', Private: o[1] != '0', Tags: o[2] != '0', Unsafe: o[3] != '0', Shared: o[4] != '0'}}
	}
	return []basis.Options{{}}
}
