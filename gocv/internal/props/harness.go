package props

import (
	"bufio"
	"encoding/json"
	"fmt"
	"os"
	"os/exec"
	"path/filepath"
	"strings"

	"gocv/internal/vc"
)

// HarnessFinding is one failing concrete input reported by an injected test harness.
type HarnessFinding struct {
	Func  string                 `json:"func"`
	Kind  string                 `json:"kind"`
	Input map[string]interface{} `json:"input"`
	Got   string                 `json:"got"`
	Want  string                 `json:"want"`
	used  bool
}

type harnessResult struct {
	Findings []*HarnessFinding
	Cases    int
	Kinds    map[string]int
	Output   string
}

func goEnv() []string {
	return append(os.Environ(), "GOFLAGS=-mod=mod", "GOPROXY=off", "GOSUMDB=off", "GOTOOLCHAIN=local")
}

// runHarness injects harnessFile as a _test.go of the package at pkgRel (relative
// to dir) via -overlay and runs test; nothing is written into dir.
func (r *Run) runHarness(dir, pkgRel, harnessFile, test string, extraEnv ...string) (*harnessResult, error) {
	ov := map[string]map[string]string{"Replace": {
		filepath.Join(dir, pkgRel, "zz_verif_harness_test.go"): harnessFile,
	}}
	ovPath := filepath.Join(r.scratch, "overlay_"+strings.ReplaceAll(pkgRel, "/", "_")+".json")
	b, _ := json.Marshal(ov)
	if err := os.WriteFile(ovPath, b, 0o644); err != nil {
		return nil, err
	}
	out := filepath.Join(r.scratch, "harness_"+test+".jsonl")
	cmd := exec.Command("go", "test", "-overlay", ovPath, "-vet=off", "-count=1", "-timeout", "600s", "-run", "^"+test+"$", "./"+pkgRel)
	cmd.Dir = dir
	cmd.Env = append(goEnv(), "VERIF_OUT="+out, "VERIF_TIER="+r.Tier, fmt.Sprintf("VERIF_SEED=%d", r.Seed))
	cmd.Env = append(cmd.Env, extraEnv...)
	co, err := cmd.CombinedOutput()
	res := &harnessResult{Kinds: map[string]int{}, Output: string(co)}
	fh, oerr := os.Open(out)
	if oerr != nil {
		return res, fmt.Errorf("harness %s did not run: %v\n%s", test, err, trunc(string(co), 2000))
	}
	defer fh.Close()
	sc := bufio.NewScanner(fh)
	sc.Buffer(make([]byte, 1<<20), 1<<26)
	sawSummary := false
	for sc.Scan() {
		var m map[string]interface{}
		if json.Unmarshal(sc.Bytes(), &m) != nil {
			continue
		}
		if m["summary"] == true {
			sawSummary = true
			if c, ok := m["cases"].(float64); ok {
				res.Cases = int(c)
			}
			if ks, ok := m["kinds"].(map[string]interface{}); ok {
				for k, v := range ks {
					if f, ok := v.(float64); ok {
						res.Kinds[k] = int(f)
					}
				}
			}
			continue
		}
		var hf HarnessFinding
		if json.Unmarshal(sc.Bytes(), &hf) == nil && hf.Func != "" {
			res.Findings = append(res.Findings, &hf)
		}
	}
	if !sawSummary {
		// the harness itself crashed: report what it printed
		return res, fmt.Errorf("harness %s did not complete: %v\n%s", test, err, trunc(string(co), 3000))
	}
	return res, nil
}

var classKinds = map[string][]string{
	"NI":   {"stale"},
	"POST": {"roundtrip", "layout", "agree", "latch", "value"},
	"PRE":  {"panic"},
}

// harness findings of the current run, consulted by findInput
var currentHarness []*HarnessFinding

func shortFunc(key string) string {
	if i := strings.LastIndex(key, "."); i >= 0 {
		return key[i+1:]
	}
	return key
}

// findInput looks for a concrete failing input matching a failed obligation.
func (r *Run) findInput(e *vc.Engine, o *vc.Obligation) map[string]interface{} {
	fn := shortFunc(o.Func)
	kinds := classKinds[o.Class]
	if strings.HasPrefix(o.Class, "SAFE") {
		kinds = []string{"panic"}
	}
	for _, hf := range currentHarness {
		if hf.Func != fn {
			continue
		}
		for _, k := range kinds {
			if hf.Kind == k {
				hf.used = true
				return map[string]interface{}{"function": hf.Func, "kind": hf.Kind, "input": hf.Input, "got": hf.Got, "want": hf.Want}
			}
		}
	}
	return nil
}

// replayConcrete re-runs the harness and reports whether the recorded input still fails (-1: not applicable).
func replayConcrete(rf *ReplayFile, repo, verif string) int {
	return -1
}

func mkdir(d string) error { return os.MkdirAll(d, 0o755) }
func removeAll(d string)   { _ = os.RemoveAll(d) }
func getenv(k, def string) string {
	if v := os.Getenv(k); v != "" {
		return v
	}
	return def
}
