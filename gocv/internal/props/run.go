// Package props defines, per property, which functions and obligation classes
// decide it, and turns solver results into evidence, known findings and replays.
package props

import (
	"crypto/sha1"
	"encoding/json"
	"fmt"
	"os"
	"path/filepath"
	"regexp"
	"runtime"
	"sort"
	"strings"

	"gocv/internal/smt"
	"gocv/internal/vc"
)

// Violation is an unexpected failed obligation (or failed bounded stand-in).
type Violation struct {
	Obligation string
	ReplayPath string
	HasInput   bool
}

// Bounded describes a bounded stand-in (never counted as proved).
type Bounded struct {
	What  string `json:"what"`
	Bound string `json:"bound"`
	Cases int    `json:"cases"`
	Fail  int    `json:"failures"`
}

// Run is the state of one check invocation.
type Run struct {
	ID, Tier    string
	Seed        int64
	Repo, Verif string
	Verbose     bool
	Keep        bool
	Level       string
	Wall        float64

	NObl, NDischarged, NCover int
	ByBackend                 map[string]int
	ByClass                   map[string][2]int
	SolverTime                float64
	Functions                 []string
	Assumptions               map[string]bool
	KnownHit                  []string
	Violations                []Violation
	Bounded                   []Bounded
	BoundedCases              int
	BoundedDistinct           int
	Rule                      string
	Samples                   []interface{}
	Coverage                  map[string]interface{}
	Explanation               string

	byteTheory     bool // load the byte-level meaning of the wire tokens (iohelp proofs)
	nbasis         int
	Dec            bool // generate the pointwise decode reference and the DEC clauses
	scratch        string
	known          []KnownFinding
	onMissingInput func(o *vc.Obligation) bool // may extend the harness findings; true = look again
}

// KnownFinding is one entry of /verif/known_findings.json.
type KnownFinding struct {
	Property   string `json:"property"`
	Obligation string `json:"obligation"` // exact obligation id, or a regular expression when it starts with "re:"
	Status     string `json:"status"`     // "known" | "fixed"
	Commit     string `json:"commit,omitempty"`
	What       string `json:"what"`
	re         *regexp.Regexp
}

func (r *Run) loadKnown() error {
	b, err := os.ReadFile(filepath.Join(r.Verif, "known_findings.json"))
	if err != nil {
		if os.IsNotExist(err) {
			return nil
		}
		return err
	}
	if err := json.Unmarshal(b, &r.known); err != nil {
		return fmt.Errorf("known_findings.json: %v", err)
	}
	for i := range r.known {
		if strings.HasPrefix(r.known[i].Obligation, "re:") {
			re, err := regexp.Compile(strings.TrimPrefix(r.known[i].Obligation, "re:"))
			if err != nil {
				return err
			}
			r.known[i].re = re
		}
	}
	return nil
}

// knownFor returns the known (unfixed) finding that covers an obligation id, if any.
func (r *Run) knownFor(id string) *KnownFinding {
	for i := range r.known {
		k := &r.known[i]
		if k.Status != "known" || !strings.EqualFold(k.Property, r.ID) {
			continue
		}
		if k.re != nil {
			if k.re.MatchString(id) {
				return k
			}
		} else if k.Obligation == id {
			return k
		}
	}
	return nil
}

// Execute dispatches on the property id.
func (r *Run) Execute() error {
	r.ByBackend = map[string]int{}
	r.ByClass = map[string][2]int{}
	r.Assumptions = map[string]bool{}
	r.Coverage = map[string]interface{}{}
	if err := r.loadKnown(); err != nil {
		return err
	}
	d, err := os.MkdirTemp("", "gocv-"+r.ID+"-")
	if err != nil {
		return err
	}
	r.scratch = d
	if !r.Keep {
		defer os.RemoveAll(d)
	}
	fn, ok := registry[strings.ToUpper(r.ID)]
	if !ok {
		return fmt.Errorf("no check registered for property %q", r.ID)
	}
	return fn(r)
}

var registry = map[string]func(*Run) error{}

// ---- shared helpers ----------------------------------------------------------

func (r *Run) timeout() int {
	// The slowest obligations of the unchanged tree (trace equality of messages that hold byte arrays) need
	// 15-20 s on a loaded machine; the limits leave a factor of two to three above that.
	if r.Tier == "thorough" {
		return 90
	}
	return 45
}

// loadEngine loads packages of the repository (tag verif) with all contract files.
func (r *Run) loadEngine(dir string, patterns ...string) (*vc.Engine, error) {
	e, err := vc.Load(dir, patterns...)
	if err != nil {
		return nil, err
	}
	e.TimeoutS = r.timeout()
	e.WorkDir = filepath.Join(r.scratch, "smt")
	_ = os.MkdirAll(e.WorkDir, 0o755)
	th, err := os.ReadFile(filepath.Join(r.Verif, "contracts", "theory.smt2"))
	if err != nil {
		return nil, err
	}
	e.RawSMT = append(e.RawSMT, string(th))
	if r.byteTheory {
		tb, err := os.ReadFile(filepath.Join(r.Verif, "contracts", "theory_bytes.smt2"))
		if err != nil {
			return nil, err
		}
		e.RawSMT = append(e.RawSMT, string(tb))
	}
	if err := e.AddContractFile(filepath.Join(r.Verif, "contracts", "stdlib.contracts"), ""); err != nil {
		return nil, err
	}
	if err := e.AddContractFilesIn(); err != nil {
		return nil, err
	}
	return e, nil
}

// Selection says which obligations of which functions belong to a property.
type Selection struct {
	FuncFilter func(key string) bool
	Keep       func(o *vc.Obligation) bool
}

// verify generates and discharges the selected obligations and records the outcome.
func (r *Run) verify(e *vc.Engine, pkgPaths []string, sel Selection, withLemmas bool) error {
	var all []*vc.Obligation
	var contractErrs []*vc.Obligation
	nfun := 0
	for _, pp := range pkgPaths {
		for _, fn := range e.Functions(pp) {
			key := fn.String()
			if sel.FuncFilter != nil && !sel.FuncFilter(key) {
				continue
			}
			if e.Contracts[key] == nil {
				continue
			}
			obls, fs, err := e.VerifyFunc(fn)
			if err != nil {
				// the contract no longer fits the function (a clause names a variable or statement that is gone,
				// or the code left the supported subset): every obligation of the function is undecided, which is
				// reported as one violation naming the function and the reason
				o := &vc.Obligation{ID: key + "/CONTRACT/cannot be applied", Func: key, Class: "CONTRACT", Site: "contract of " + key,
					Result: smt.Result{Status: "error", Output: "the contract cannot be applied to the current code: " + err.Error()}}
				r.Functions = append(r.Functions, key)
				nfun++
				contractErrs = append(contractErrs, o)
				continue
			}
			nfun++
			r.Functions = append(r.Functions, key)
			for n := range vc.Notes(fs) {
				r.Assumptions[n] = true
			}
			per := 0
			for _, o := range obls {
				if sel.Keep == nil || sel.Keep(o) {
					all = append(all, o)
					per++
				}
			}
			if per == 0 {
				return fmt.Errorf("vacuity guard: no obligations generated for %s", key)
			}
		}
	}
	if withLemmas {
		all = append(all, e.LemmaObligations()...)
	}
	for i, pp := range pkgPaths {
		all = append(all, e.RawLemmaObligations(pp)...)
		// theory smoke test: the shared vocabulary once, the package's own reference functions per package
		if i == 0 {
			all = append(all, e.SmokeObligations(pp, true)...)
		}
		all = append(all, e.SmokeObligations(pp, false)...)
	}
	if nfun == 0 || len(all) == 0 {
		return fmt.Errorf("vacuity guard: no functions under contract / no obligations selected")
	}
	for _, fc := range e.AssumedContracts() {
		r.Assumptions["assumed contract: "+fc] = true
	}
	e.Discharge(all, runtime.NumCPU()*3/4)
	r.record(e, append(all, contractErrs...))
	return nil
}

func (r *Run) record(e *vc.Engine, all []*vc.Obligation) {
	sort.Slice(all, func(i, j int) bool { return all[i].ID < all[j].ID })
	// vacuity guard: every function must have at least one feasible return under its contract
	// (an individual infeasible return is dead code — e.g. a redundant length check — not vacuity)
	coverOK := map[string]bool{}
	coverAny := map[string]*vc.Obligation{}
	defer func() {
		for fn, ok := range coverOK {
			if !ok {
				r.violation(e, coverAny[fn], "vacuity: no return of this function is feasible under its contract (contradictory requires / assumed contracts / axioms)")
			}
		}
	}()
	for _, o := range all {
		c := r.ByClass[o.Class]
		c[0]++
		if o.Class == "COVER" {
			r.NCover++
			if o.Held() {
				c[1]++
				coverOK[o.Func] = true
			} else if _, seen := coverOK[o.Func]; !seen {
				coverOK[o.Func] = false
			}
			coverAny[o.Func] = o
			r.ByClass[o.Class] = c
			continue
		}
		r.NObl++
		r.SolverTime += o.Result.Seconds
		if o.Held() {
			r.NDischarged++
			c[1]++
			r.ByBackend[o.Result.Solver]++
			if len(r.Samples) < 6 && (o.Class == "POST" || o.Class == "NI" || strings.HasPrefix(o.Class, "INV")) {
				r.Samples = append(r.Samples, map[string]interface{}{"obligation": o.ID, "status": o.Result.Status, "solver": o.Result.Solver, "seconds": o.Result.Seconds})
			}
		} else {
			if k := r.knownFor(o.ID); k != nil {
				r.KnownHit = append(r.KnownHit, fmt.Sprintf("%s [%s]", k.What, o.ID))
			} else {
				r.violation(e, o, "")
			}
		}
		r.ByClass[o.Class] = c
		if r.Verbose {
			fmt.Printf("%-7s %-7s %.2fs %s\n", o.Result.Status, o.Result.Solver, o.Result.Seconds, o.ID)
		}
	}
}

// ReplayFile is what a VIOLATION line points to.
type ReplayFile struct {
	Property   string                 `json:"property"`
	Obligation string                 `json:"obligation"`
	Class      string                 `json:"class"`
	Function   string                 `json:"function"`
	Site       string                 `json:"site"`
	Position   string                 `json:"position"`
	Reason     string                 `json:"reason"` // "refuted" (solver model) | "undischarged" (unknown/timeout) | "bounded" | "vacuity"
	Solver     string                 `json:"solver_output"`
	QueryPath  string                 `json:"query"`
	Input      map[string]interface{} `json:"failing_input,omitempty"`
	Note       string                 `json:"note,omitempty"`
	Rerun      string                 `json:"rerun"`
}

func (r *Run) violation(e *vc.Engine, o *vc.Obligation, note string) {
	dir := filepath.Join(r.Verif, "replays", strings.ToUpper(r.ID))
	_ = os.MkdirAll(dir, 0o755)
	h := sha1.Sum([]byte(o.ID))
	base := fmt.Sprintf("%x", h[:6])
	qp := filepath.Join(dir, base+".smt2")
	_ = os.WriteFile(qp, []byte(o.Query), 0o644)
	rf := ReplayFile{Property: r.ID, Obligation: o.ID, Class: o.Class, Function: o.Func, Site: o.Site,
		Position: o.Pos.String(), Solver: trunc(strings.TrimSpace(o.Note+"\n"+o.Result.Output), 4000), QueryPath: qp, Note: note,
		Rerun: fmt.Sprintf("/verif/bin/check %s --tier %s", r.ID, r.Tier)}
	switch {
	case note != "":
		rf.Reason = "vacuity"
	case o.Result.Status == "sat":
		rf.Reason = "refuted"
	default:
		rf.Reason = "undischarged"
	}
	hasInput := false
	in := r.findInput(e, o)
	if in == nil && r.onMissingInput != nil && r.onMissingInput(o) {
		in = r.findInput(e, o)
	}
	if in != nil {
		rf.Input = in
		hasInput = true
	}
	p := filepath.Join(dir, base+".json")
	b, _ := json.MarshalIndent(rf, "", " ")
	_ = os.WriteFile(p, append(b, '\n'), 0o644)
	r.Violations = append(r.Violations, Violation{Obligation: o.ID, ReplayPath: p, HasInput: hasInput})
}

// boundedViolation records a failure found by a bounded stand-in (it always has a concrete input).
func (r *Run) boundedViolation(what string, input map[string]interface{}) {
	dir := filepath.Join(r.Verif, "replays", strings.ToUpper(r.ID))
	_ = os.MkdirAll(dir, 0o755)
	h := sha1.Sum([]byte(what + fmt.Sprint(input)))
	p := filepath.Join(dir, fmt.Sprintf("%x.json", h[:6]))
	rf := ReplayFile{Property: r.ID, Obligation: what, Class: "BOUNDED", Reason: "bounded", Input: input,
		Rerun: fmt.Sprintf("/verif/bin/check %s --tier %s", r.ID, r.Tier)}
	b, _ := json.MarshalIndent(rf, "", " ")
	_ = os.WriteFile(p, append(b, '\n'), 0o644)
	r.Violations = append(r.Violations, Violation{Obligation: what, ReplayPath: p, HasInput: true})
}

func trunc(s string, n int) string {
	if len(s) <= n {
		return s
	}
	return s[:n] + "…"
}

// Replay re-runs the check a replay file came from and reports whether the obligation still fails.
func Replay(path, repo, verif string) int {
	b, err := os.ReadFile(path)
	if err != nil {
		fmt.Fprintln(os.Stderr, err)
		return 2
	}
	var rf ReplayFile
	if err := json.Unmarshal(b, &rf); err != nil {
		fmt.Fprintln(os.Stderr, err)
		return 2
	}
	fmt.Printf("replay of %s\n obligation: %s\n reason: %s\n", rf.Property, rf.Obligation, rf.Reason)
	if rf.Input != nil {
		fmt.Printf(" failing input: %v\n", rf.Input)
		if code := replayConcrete(&rf, repo, verif); code >= 0 {
			return code
		}
	}
	rc := &Run{ID: rf.Property, Tier: "quick", Seed: 1, Repo: repo, Verif: verif}
	if err := rc.Execute(); err != nil {
		fmt.Fprintln(os.Stderr, err)
		return 2
	}
	for _, v := range rc.Violations {
		if v.Obligation == rf.Obligation {
			fmt.Println(" still fails")
			return 1
		}
	}
	fmt.Println(" no longer fails")
	return 0
}
