// Package smt runs SMT-LIB queries on the installed solvers, racing them.
package smt

import (
	"bytes"
	"context"
	"os"
	"os/exec"
	"path/filepath"
	"strings"
	"sync"
	"time"
)

// Result of one query.
type Result struct {
	Status  string  // "unsat", "sat", "unknown", "timeout", "error"
	Solver  string  // which back end gave the definite answer ("" if none)
	Seconds float64 // wall time until the answer
	Model   string  // raw model text when Status == "sat" (may be empty)
	Output  string  // raw output of the deciding solver (or of all, when undecided)
}

// Backend describes one installed solver.
type Backend struct {
	Name string
	Argv func(file string, timeoutS int) []string
}

// Backends in racing order.
var Backends = []Backend{
	{"z3-new", func(f string, t int) []string { return []string{"z3-new", "-smt2", "-T:" + itoa(t), f} }},
	{"z3", func(f string, t int) []string { return []string{"z3", "-smt2", "-T:" + itoa(t), f} }},
	{"cvc5", func(f string, t int) []string {
		return []string{"cvc5", "--lang=smt2", "--tlimit=" + itoa(t*1000), "--produce-models", f}
	}},
}

func itoa(i int) string {
	if i == 0 {
		return "0"
	}
	neg := i < 0
	if neg {
		i = -i
	}
	var b []byte
	for i > 0 {
		b = append([]byte{byte('0' + i%10)}, b...)
		i /= 10
	}
	if neg {
		b = append([]byte{'-'}, b...)
	}
	return string(b)
}

// Available reports which back ends are on PATH.
func Available() []Backend {
	var out []Backend
	for _, b := range Backends {
		if _, err := exec.LookPath(b.Argv("x", 1)[0]); err == nil {
			out = append(out, b)
		}
	}
	return out
}

var (
	availOnce sync.Once
	avail     []Backend
)

// Only, when non-empty, restricts the race to the named back ends.
var Only []string

func backends() []Backend {
	availOnce.Do(func() { avail = Available() })
	if len(Only) == 0 {
		return avail
	}
	var out []Backend
	for _, b := range avail {
		for _, o := range Only {
			if o == b.Name {
				out = append(out, b)
			}
		}
	}
	return out
}

// Solve writes query to a file in dir and races all back ends; the first
// definite answer (sat/unsat) wins. wantModel appends (get-model) handling:
// the query itself must contain (get-model) after (check-sat) if a model is wanted.
func Solve(dir, name, query string, timeoutS int) Result {
	file := filepath.Join(dir, name+".smt2")
	if err := os.WriteFile(file, []byte(query), 0o644); err != nil {
		return Result{Status: "error", Output: err.Error()}
	}
	bs := backends()
	// stage 1: the usually fastest back end alone, briefly; most obligations end here
	if len(bs) > 1 && timeoutS > 5 {
		start := time.Now()
		r := runOne(context.Background(), bs[0], file, 5, start)
		if r.Status == "unsat" || r.Status == "sat" {
			return r
		}
	}
	return race(bs, file, timeoutS)
}

func runOne(ctx context.Context, b Backend, file string, timeoutS int, start time.Time) Result {
	argv := b.Argv(file, timeoutS)
	cctx, ccancel := context.WithTimeout(ctx, time.Duration(timeoutS+2)*time.Second)
	defer ccancel()
	cmd := exec.CommandContext(cctx, argv[0], argv[1:]...)
	var out bytes.Buffer
	cmd.Stdout = &out
	cmd.Stderr = &out
	_ = cmd.Run() // z3 4.8.12 exits 1 on (get-model) after unsat: parse first line only
	text := out.String()
	first := strings.TrimSpace(firstLine(text))
	r := Result{Solver: b.Name, Seconds: time.Since(start).Seconds(), Output: text}
	switch first {
	case "unsat":
		r.Status = "unsat"
	case "sat":
		r.Status = "sat"
		if i := strings.Index(text, "\n"); i >= 0 {
			r.Model = text[i+1:]
		}
	case "unknown":
		r.Status = "unknown"
	case "timeout":
		r.Status = "timeout"
	default:
		if cctx.Err() != nil {
			r.Status = "timeout"
		} else {
			r.Status = "error"
		}
	}
	return r
}

func race(bs []Backend, file string, timeoutS int) Result {
	type ans struct {
		r Result
	}
	ctx, cancel := context.WithCancel(context.Background())
	defer cancel()
	ch := make(chan Result, len(bs))
	start := time.Now()
	for _, b := range bs {
		b := b
		go func() {
			r := runOne(ctx, b, file, timeoutS, start)
			ch <- r
		}()
	}
	var undecided []Result
	for range bs {
		r := <-ch
		if r.Status == "unsat" || r.Status == "sat" {
			cancel()
			return r
		}
		undecided = append(undecided, r)
	}
	// nobody decided
	var sb strings.Builder
	status := "unknown"
	allTimeout := true
	anyErr := false
	for _, r := range undecided {
		sb.WriteString("[" + r.Solver + "] " + r.Status + ": " + strings.TrimSpace(trunc(r.Output, 400)) + "\n")
		if r.Status != "timeout" {
			allTimeout = false
		}
		if r.Status == "error" {
			anyErr = true
		}
	}
	if allTimeout {
		status = "timeout"
	}
	if anyErr && !allTimeout {
		// an error from one solver (e.g. cvc5 rejecting syntax) with the others
		// unknown/timeout is still "unknown"; only all-error is "error"
		allErr := true
		for _, r := range undecided {
			if r.Status != "error" {
				allErr = false
			}
		}
		if allErr {
			status = "error"
		}
	}
	return Result{Status: status, Seconds: time.Since(start).Seconds(), Output: sb.String()}
}

func firstLine(s string) string {
	// skip warnings some solvers print before the answer
	for _, ln := range strings.Split(s, "\n") {
		t := strings.TrimSpace(ln)
		if t == "" || strings.HasPrefix(t, "WARNING") || strings.HasPrefix(t, "(warning") || strings.HasPrefix(t, ";") {
			continue
		}
		return t
	}
	return ""
}

func trunc(s string, n int) string {
	if len(s) <= n {
		return s
	}
	return s[:n] + "…"
}
