package spec

import (
	"bufio"
	"fmt"
	"os"
	"regexp"
	"strconv"
	"strings"
)

// Clause is one requires/ensures/invariant clause.
type Clause struct {
	Label string // optional [LABEL] prefix: names the obligation and its class
	Text  string
	E     Expr
	File  string
	Line  int
}

// ModItem is one item of a modifies clause.
type ModItem struct {
	Text string
	E    Expr // Sel, SliceE, Unary{*}, or Call{fresh|any|ghost}
}

// SiteAssert is an assertion attached to a program point identified by source text.
type SiteAssert struct {
	Assume bool   // an assumed fact (trusted, listed in the evidence) rather than an obligation
	Every  bool   // applies to every occurrence of the needle, zero occurrences included
	Where  string // "after" | "before"
	Needle string // substring of the source line
	Clause Clause
}

// FuncContract holds all clauses for one function.
type FuncContract struct {
	Name       string // as written: ReadUint32, (*ErrorReader).Read, io.ReadFull
	PkgPath    string // package of the contract file ("" for stdlib contracts with qualified names)
	Interface  bool   // contract of an interface method (io.Reader.Read)
	Assumed    bool   // body not verified (external or declared assume-contract)
	Requires   []Clause
	Ensures    []Clause
	Modifies   []ModItem
	ModAll     bool // "modifies everything"
	HasMod     bool
	Invariants map[int][]Clause
	Decreases  map[int]Clause
	Asserts    []SiteAssert
	NI         []NIClause
	ParamNames []string // functype contracts: parameter names from the header
	Ghosts     []string // per-function hints / options
	File       string
	Line       int
}

// NIClause: when Cond holds at exit, the results do not depend on the entry
// contents of the memory named by Item (a 2-safety clause).
type NIClause struct {
	Label string
	Text  string
	Cond  Expr
	Item  ModItem
	Line  int
}

// SpecFunc is an uninterpreted or defined spec function.
type SpecFunc struct {
	PkgPath string
	Name    string
	Params  []QVar
	Ret     string
	Body    Expr // nil => uninterpreted
	Text    string
}

// Axiom / lemma.
type Axiom struct {
	Name  string
	Text  string
	E     Expr
	Lemma bool // to be proved (from the axioms) rather than assumed
	File  string
	Line  int
}

// HeapBundle names a list of heap maps passed implicitly to spec functions.
type HeapBundle struct {
	Name    string
	PkgPath string
	Types   []string // type expressions: string, R1.F1, []string, ...
}

// File is a parsed contract file.
type File struct {
	Bundles []*HeapBundle
	Path    string
	PkgPath string
	Funcs   []*FuncContract
	Specs   []*SpecFunc
	Axioms  []*Axiom
	RawSMT  []string
}

var (
	reLabel   = regexp.MustCompile(`^\[([A-Za-z0-9_.:-]+)\]\s*`)
	reLoop    = regexp.MustCompile(`^loop\s+(\d+)\s*:\s*`)
	rePureSig = regexp.MustCompile(`^([A-Za-z_][A-Za-z0-9_$]*)\s*\(([^)]*)\)\s*([^=]+?)\s*(?:=\s*(.*))?$`)
)

func parseParams(s string) ([]QVar, error) {
	s = strings.TrimSpace(s)
	if s == "" {
		return nil, nil
	}
	var out []QVar
	for _, part := range strings.Split(s, ",") {
		f := strings.Fields(strings.TrimSpace(part))
		if len(f) < 2 {
			return nil, fmt.Errorf("bad parameter %q", part)
		}
		out = append(out, QVar{Name: f[0], Sort: strings.Join(f[1:], " ")})
	}
	return out, nil
}

// ParseFile reads the //@ lines of a contract file.
func ParseFile(path, pkgPath string) (*File, error) {
	fh, err := os.Open(path)
	if err != nil {
		return nil, err
	}
	defer fh.Close()
	out := &File{Path: path, PkgPath: pkgPath}
	var cur *FuncContract
	sc := bufio.NewScanner(fh)
	sc.Buffer(make([]byte, 1<<20), 1<<24)
	ln := 0
	for sc.Scan() {
		ln++
		line := strings.TrimSpace(sc.Text())
		if !strings.HasPrefix(line, "//@") {
			continue
		}
		body := strings.TrimSpace(strings.TrimPrefix(line, "//@"))
		if body == "" || strings.HasPrefix(body, "--") {
			continue
		}
		// strip trailing comment
		if i := strings.Index(body, " -- "); i >= 0 {
			body = strings.TrimSpace(body[:i])
		}
		kw, rest := splitKw(body)
		fail := func(e error) error { return fmt.Errorf("%s:%d: %v", path, ln, e) }
		mkClause := func(text string) (Clause, error) {
			c := Clause{File: path, Line: ln}
			if m := reLabel.FindStringSubmatch(text); m != nil {
				c.Label = m[1]
				text = text[len(m[0]):]
			}
			c.Text = text
			e, err := ParseExpr(text)
			if err != nil {
				return c, err
			}
			c.E = e
			return c, nil
		}
		switch kw {
		case "functype":
			// functype func(tr *tokenReader, b []byte) token — contract every value of this function type obeys
			cur = &FuncContract{Name: "functype:" + strings.TrimSpace(rest), PkgPath: pkgPath, File: path, Line: ln,
				Invariants: map[int][]Clause{}, Decreases: map[int]Clause{}, Assumed: true}
			if i, j := strings.Index(rest, "("), strings.Index(rest, ")"); i >= 0 && j > i {
				for _, part := range strings.Split(rest[i+1:j], ",") {
					fs := strings.Fields(strings.TrimSpace(part))
					if len(fs) >= 2 {
						cur.ParamNames = append(cur.ParamNames, fs[0])
					}
				}
			}
			out.Funcs = append(out.Funcs, cur)
		case "func", "interface", "assume-func":
			cur = &FuncContract{Name: strings.TrimSpace(rest), PkgPath: pkgPath, File: path, Line: ln,
				Invariants: map[int][]Clause{}, Decreases: map[int]Clause{}}
			// drop a trailing signature, keep only the name
			if i := strings.Index(cur.Name, " "); i >= 0 && !strings.HasPrefix(cur.Name, "(") {
				cur.Name = cur.Name[:i]
			} else if strings.HasPrefix(cur.Name, "(") {
				// (*T).M or (T).M possibly followed by a signature
				if j := strings.Index(cur.Name, ")."); j >= 0 {
					k := j + 2
					for k < len(cur.Name) && (isIdentChar(cur.Name[k])) {
						k++
					}
					cur.Name = cur.Name[:k]
				}
			}
			if i := strings.Index(cur.Name, "("); i > 0 {
				cur.Name = cur.Name[:i]
			}
			cur.Interface = kw == "interface"
			cur.Assumed = kw == "assume-func" || kw == "interface"
			out.Funcs = append(out.Funcs, cur)
		case "requires", "ensures":
			if cur == nil {
				return nil, fail(fmt.Errorf("%s outside func", kw))
			}
			c, err := mkClause(rest)
			if err != nil {
				return nil, fail(err)
			}
			if kw == "requires" {
				cur.Requires = append(cur.Requires, c)
			} else {
				cur.Ensures = append(cur.Ensures, c)
			}
		case "modifies":
			if cur == nil {
				return nil, fail(fmt.Errorf("modifies outside func"))
			}
			cur.HasMod = true
			if strings.TrimSpace(rest) == "nothing" {
				break
			}
			if strings.TrimSpace(rest) == "everything" {
				// no frame condition is stated (and none is checked)
				cur.ModAll = true
				break
			}
			for _, it := range splitTop(rest, ',') {
				it = strings.TrimSpace(it)
				e, err := ParseExpr(it)
				if err != nil {
					return nil, fail(err)
				}
				cur.Modifies = append(cur.Modifies, ModItem{Text: it, E: e})
			}
		case "invariant", "decreases":
			if cur == nil {
				return nil, fail(fmt.Errorf("%s outside func", kw))
			}
			m := reLoop.FindStringSubmatch(rest)
			if m == nil {
				return nil, fail(fmt.Errorf("%s needs 'loop N:'", kw))
			}
			n, _ := strconv.Atoi(m[1])
			c, err := mkClause(rest[len(m[0]):])
			if err != nil {
				return nil, fail(err)
			}
			if kw == "invariant" {
				cur.Invariants[n] = append(cur.Invariants[n], c)
			} else {
				cur.Decreases[n] = c
			}
		case "assert", "assume":
			if cur == nil {
				return nil, fail(fmt.Errorf("assert outside func"))
			}
			// assert [every] after "needle": expr — without `every` the anchor statement must exist (an assertion that
			// finds no statement to attach to is reported); with it the clause applies to each occurrence, none included
			every := false
			if strings.HasPrefix(rest, "every ") {
				every = true
				rest = strings.TrimSpace(strings.TrimPrefix(rest, "every "))
			}
			f := strings.SplitN(rest, " ", 2)
			if len(f) != 2 || (f[0] != "after" && f[0] != "before") {
				return nil, fail(fmt.Errorf("assert: expected after|before"))
			}
			r := strings.TrimSpace(f[1])
			if !strings.HasPrefix(r, "\"") {
				return nil, fail(fmt.Errorf("assert: expected quoted source text"))
			}
			j := strings.Index(r[1:], "\"")
			if j < 0 {
				return nil, fail(fmt.Errorf("assert: unterminated quote"))
			}
			needle := r[1 : 1+j]
			r = strings.TrimSpace(r[j+2:])
			r = strings.TrimPrefix(r, ":")
			c, err := mkClause(strings.TrimSpace(r))
			if err != nil {
				return nil, fail(err)
			}
			cur.Asserts = append(cur.Asserts, SiteAssert{Assume: kw == "assume", Every: every, Where: f[0], Needle: needle, Clause: c})
		case "noninterference":
			if cur == nil {
				return nil, fail(fmt.Errorf("noninterference outside func"))
			}
			text := rest
			ni := NIClause{Line: ln}
			if m := reLabel.FindStringSubmatch(text); m != nil {
				ni.Label = m[1]
				text = text[len(m[0]):]
			}
			ni.Text = text
			j := strings.LastIndex(text, " : ")
			if j < 0 {
				return nil, fail(fmt.Errorf("noninterference needs 'cond : item'"))
			}
			ce, err := ParseExpr(strings.TrimSpace(text[:j]))
			if err != nil {
				return nil, fail(err)
			}
			ie, err := ParseExpr(strings.TrimSpace(text[j+3:]))
			if err != nil {
				return nil, fail(err)
			}
			ni.Cond = ce
			ni.Item = ModItem{Text: strings.TrimSpace(text[j+3:]), E: ie}
			cur.NI = append(cur.NI, ni)
		case "option":
			if cur == nil {
				return nil, fail(fmt.Errorf("option outside func"))
			}
			cur.Ghosts = append(cur.Ghosts, strings.TrimSpace(rest))
		case "pure", "define":
			r := strings.TrimSpace(strings.TrimPrefix(strings.TrimSpace(rest), "func"))
			m := rePureSig.FindStringSubmatch(r)
			if m == nil {
				return nil, fail(fmt.Errorf("bad spec function signature %q", r))
			}
			ps, err := parseParams(m[2])
			if err != nil {
				return nil, fail(err)
			}
			sf := &SpecFunc{PkgPath: pkgPath, Name: m[1], Params: ps, Ret: strings.TrimSpace(m[3]), Text: r}
			if m[4] != "" {
				e, err := ParseExpr(m[4])
				if err != nil {
					return nil, fail(err)
				}
				sf.Body = e
			}
			out.Specs = append(out.Specs, sf)
			cur = nil
		case "axiom", "lemma":
			i := strings.Index(rest, ":")
			if i < 0 {
				return nil, fail(fmt.Errorf("%s needs 'name: expr'", kw))
			}
			e, err := ParseExpr(strings.TrimSpace(rest[i+1:]))
			if err != nil {
				return nil, fail(err)
			}
			out.Axioms = append(out.Axioms, &Axiom{Name: strings.TrimSpace(rest[:i]), Text: strings.TrimSpace(rest[i+1:]), E: e, Lemma: kw == "lemma", File: path, Line: ln})
			cur = nil
		case "heaps":
			i := strings.Index(rest, ":")
			if i < 0 {
				return nil, fail(fmt.Errorf("heaps needs 'name: T1, T2'"))
			}
			hb := &HeapBundle{Name: strings.TrimSpace(rest[:i]), PkgPath: pkgPath}
			for _, t := range splitTop(rest[i+1:], ',') {
				if t = strings.TrimSpace(t); t != "" {
					hb.Types = append(hb.Types, t)
				}
			}
			out.Bundles = append(out.Bundles, hb)
			cur = nil
		case "smt":
			out.RawSMT = append(out.RawSMT, rest)
			cur = nil
		default:
			return nil, fail(fmt.Errorf("unknown clause %q", kw))
		}
	}
	return out, sc.Err()
}

func isIdentChar(c byte) bool {
	return c == '_' || c == '$' || (c >= '0' && c <= '9') || (c >= 'a' && c <= 'z') || (c >= 'A' && c <= 'Z')
}

func splitKw(s string) (string, string) {
	i := strings.IndexAny(s, " \t")
	if i < 0 {
		return s, ""
	}
	return s[:i], strings.TrimSpace(s[i+1:])
}

// splitTop splits on sep outside parentheses/brackets.
func splitTop(s string, sep byte) []string {
	var out []string
	depth := 0
	last := 0
	for i := 0; i < len(s); i++ {
		switch s[i] {
		case '(', '[':
			depth++
		case ')', ']':
			depth--
		default:
			if s[i] == sep && depth == 0 {
				out = append(out, s[last:i])
				last = i + 1
			}
		}
	}
	out = append(out, s[last:])
	return out
}
