// Package spec parses the contract language: Gobra-style //@ clauses whose
// expressions are Go expressions extended with old(e), ==>, <==>,
// forall x T :: e and exists x T :: e.
package spec

import (
	"fmt"
	"strings"
	"unicode"
)

// Expr is a contract expression node.
type Expr interface{ String() string }

type (
	Ident   struct{ Name string }
	IntLit  struct{ V string }
	BoolLit struct{ V bool }
	StrLit  struct{ V string }
	Call    struct {
		Fn   string
		Args []Expr
	}
	Sel struct {
		X    Expr
		Name string
	}
	Index  struct{ X, I Expr }
	SliceE struct{ X, Lo, Hi Expr }
	Unary  struct {
		Op string
		X  Expr
	}
	Binary struct {
		Op   string
		X, Y Expr
	}
	Quant struct {
		Forall bool
		Vars   []QVar
		Body   Expr
	}
)

type QVar struct{ Name, Sort string }

func (e *Ident) String() string   { return e.Name }
func (e *IntLit) String() string  { return e.V }
func (e *BoolLit) String() string { return fmt.Sprint(e.V) }
func (e *StrLit) String() string  { return fmt.Sprintf("%q", e.V) }
func (e *Call) String() string {
	var a []string
	for _, x := range e.Args {
		a = append(a, x.String())
	}
	return e.Fn + "(" + strings.Join(a, ", ") + ")"
}
func (e *Sel) String() string   { return e.X.String() + "." + e.Name }
func (e *Index) String() string { return e.X.String() + "[" + e.I.String() + "]" }
func (e *SliceE) String() string {
	lo, hi := "", ""
	if e.Lo != nil {
		lo = e.Lo.String()
	}
	if e.Hi != nil {
		hi = e.Hi.String()
	}
	return e.X.String() + "[" + lo + ":" + hi + "]"
}
func (e *Unary) String() string  { return e.Op + e.X.String() }
func (e *Binary) String() string { return "(" + e.X.String() + " " + e.Op + " " + e.Y.String() + ")" }
func (e *Quant) String() string {
	q := "exists"
	if e.Forall {
		q = "forall"
	}
	var vs []string
	for _, v := range e.Vars {
		vs = append(vs, v.Name+" "+v.Sort)
	}
	return "(" + q + " " + strings.Join(vs, ", ") + " :: " + e.Body.String() + ")"
}

type token struct {
	kind string // ident int str op eof
	text string
	pos  int
}

type lexer struct {
	s    string
	toks []token
}

var ops = []string{"<==>", "==>", "::", "&&", "||", "==", "!=", "<=", ">=", "<<", ">>", "&^",
	"+", "-", "*", "/", "%", "<", ">", "!", "(", ")", "[", "]", ",", ".", ":", "&", "|", "^"}

func lex(s string) ([]token, error) {
	var out []token
	i := 0
	for i < len(s) {
		c := s[i]
		if c == ' ' || c == '\t' {
			i++
			continue
		}
		if unicode.IsLetter(rune(c)) || c == '_' || c == '$' || c == '#' {
			j := i + 1
			for j < len(s) && (unicode.IsLetter(rune(s[j])) || unicode.IsDigit(rune(s[j])) || s[j] == '_' || s[j] == '$' || s[j] == '#') {
				j++
			}
			out = append(out, token{"ident", s[i:j], i})
			i = j
			continue
		}
		if unicode.IsDigit(rune(c)) {
			j := i + 1
			for j < len(s) && (unicode.IsDigit(rune(s[j])) || s[j] == 'x' || s[j] == 'X' || (s[j] >= 'a' && s[j] <= 'f') || (s[j] >= 'A' && s[j] <= 'F') || s[j] == '_') {
				j++
			}
			out = append(out, token{"int", strings.ReplaceAll(s[i:j], "_", ""), i})
			i = j
			continue
		}
		if c == '"' {
			j := i + 1
			for j < len(s) && s[j] != '"' {
				if s[j] == '\\' {
					j++
				}
				j++
			}
			if j >= len(s) {
				return nil, fmt.Errorf("unterminated string at %d", i)
			}
			out = append(out, token{"str", s[i+1 : j], i})
			i = j + 1
			continue
		}
		matched := false
		for _, op := range ops {
			if strings.HasPrefix(s[i:], op) {
				out = append(out, token{"op", op, i})
				i += len(op)
				matched = true
				break
			}
		}
		if !matched {
			return nil, fmt.Errorf("unexpected character %q at %d in %q", c, i, s)
		}
	}
	out = append(out, token{"eof", "", len(s)})
	return out, nil
}

type parser struct {
	toks []token
	p    int
	src  string
}

// ParseExpr parses one contract expression.
func ParseExpr(s string) (Expr, error) {
	toks, err := lex(s)
	if err != nil {
		return nil, err
	}
	ps := &parser{toks: toks, src: s}
	e, err := ps.expr(0)
	if err != nil {
		return nil, err
	}
	if ps.peek().kind != "eof" {
		return nil, fmt.Errorf("trailing input at %d in %q", ps.peek().pos, s)
	}
	return e, nil
}

func (ps *parser) peek() token { return ps.toks[ps.p] }
func (ps *parser) next() token { t := ps.toks[ps.p]; ps.p++; return t }
func (ps *parser) isOp(s string) bool {
	t := ps.peek()
	return t.kind == "op" && t.text == s
}
func (ps *parser) expect(s string) error {
	if !ps.isOp(s) {
		return fmt.Errorf("expected %q at %d in %q (got %q)", s, ps.peek().pos, ps.src, ps.peek().text)
	}
	ps.p++
	return nil
}

var binPrec = map[string]int{
	"<==>": 1, "==>": 2, "||": 3, "&&": 4,
	"==": 5, "!=": 5, "<": 5, "<=": 5, ">": 5, ">=": 5,
	"+": 6, "-": 6, "|": 6, "^": 6,
	"*": 7, "/": 7, "%": 7, "<<": 7, ">>": 7, "&": 7, "&^": 7,
}

func (ps *parser) expr(minPrec int) (Expr, error) {
	// quantifiers bind loosest and extend to the right
	if t := ps.peek(); t.kind == "ident" && (t.text == "forall" || t.text == "exists") {
		ps.next()
		q := &Quant{Forall: t.text == "forall"}
		for {
			n := ps.next()
			if n.kind != "ident" {
				return nil, fmt.Errorf("quantifier: expected variable name at %d in %q", n.pos, ps.src)
			}
			// sort: sequence of tokens up to ',' or '::'
			var sb strings.Builder
			for !(ps.isOp(",") || ps.isOp("::")) {
				if ps.peek().kind == "eof" {
					return nil, fmt.Errorf("quantifier: missing :: in %q", ps.src)
				}
				sb.WriteString(ps.next().text)
			}
			q.Vars = append(q.Vars, QVar{n.text, sb.String()})
			if ps.isOp(",") {
				ps.next()
				continue
			}
			break
		}
		if err := ps.expect("::"); err != nil {
			return nil, err
		}
		body, err := ps.expr(0)
		if err != nil {
			return nil, err
		}
		q.Body = body
		return q, nil
	}
	lhs, err := ps.unary()
	if err != nil {
		return nil, err
	}
	for {
		t := ps.peek()
		if t.kind != "op" {
			break
		}
		prec, ok := binPrec[t.text]
		if !ok || prec < minPrec {
			break
		}
		ps.next()
		nextMin := prec + 1
		if t.text == "==>" {
			nextMin = prec // right associative
		}
		rhs, err := ps.expr(nextMin)
		if err != nil {
			return nil, err
		}
		lhs = &Binary{Op: t.text, X: lhs, Y: rhs}
	}
	return lhs, nil
}

func (ps *parser) unary() (Expr, error) {
	t := ps.peek()
	if t.kind == "op" && (t.text == "!" || t.text == "-" || t.text == "*" || t.text == "&" || t.text == "^") {
		ps.next()
		x, err := ps.unary()
		if err != nil {
			return nil, err
		}
		return &Unary{Op: t.text, X: x}, nil
	}
	return ps.postfix()
}

func (ps *parser) postfix() (Expr, error) {
	var e Expr
	t := ps.next()
	switch t.kind {
	case "int":
		e = &IntLit{V: t.text}
	case "str":
		e = &StrLit{V: t.text}
	case "ident":
		switch t.text {
		case "true":
			e = &BoolLit{V: true}
		case "false":
			e = &BoolLit{V: false}
		default:
			e = &Ident{Name: t.text}
		}
	case "op":
		if t.text == "(" {
			x, err := ps.expr(0)
			if err != nil {
				return nil, err
			}
			if err := ps.expect(")"); err != nil {
				return nil, err
			}
			e = x
		} else if t.text == "[" {
			// type literal []T or [N]T (argument of mem/fresh/any/istype)
			pre := "["
			for !ps.isOp("]") {
				if ps.peek().kind == "eof" {
					return nil, fmt.Errorf("unterminated type literal in %q", ps.src)
				}
				pre += ps.next().text
			}
			ps.next()
			pre += "]"
			inner, err := ps.unary()
			if err != nil {
				return nil, err
			}
			return &Ident{Name: pre + inner.String()}, nil
		} else {
			return nil, fmt.Errorf("unexpected %q at %d in %q", t.text, t.pos, ps.src)
		}
	default:
		return nil, fmt.Errorf("unexpected end of expression in %q", ps.src)
	}
	for {
		switch {
		case ps.isOp("("):
			ps.next()
			var args []Expr
			for !ps.isOp(")") {
				a, err := ps.expr(0)
				if err != nil {
					return nil, err
				}
				args = append(args, a)
				if ps.isOp(",") {
					ps.next()
				} else {
					break
				}
			}
			if err := ps.expect(")"); err != nil {
				return nil, err
			}
			name := ""
			switch f := e.(type) {
			case *Ident:
				name = f.Name
			case *Sel:
				name = f.String()
			default:
				return nil, fmt.Errorf("call of non-name %s in %q", e, ps.src)
			}
			e = &Call{Fn: name, Args: args}
		case ps.isOp("["):
			ps.next()
			var lo, hi Expr
			var err error
			if !ps.isOp(":") {
				lo, err = ps.expr(0)
				if err != nil {
					return nil, err
				}
			}
			if ps.isOp(":") {
				ps.next()
				if !ps.isOp("]") {
					hi, err = ps.expr(0)
					if err != nil {
						return nil, err
					}
				}
				if err := ps.expect("]"); err != nil {
					return nil, err
				}
				e = &SliceE{X: e, Lo: lo, Hi: hi}
			} else {
				if err := ps.expect("]"); err != nil {
					return nil, err
				}
				e = &Index{X: e, I: lo}
			}
		case ps.isOp("."):
			ps.next()
			n := ps.next()
			if n.kind != "ident" {
				return nil, fmt.Errorf("expected field name at %d in %q", n.pos, ps.src)
			}
			e = &Sel{X: e, Name: n.text}
		default:
			return e, nil
		}
	}
}
