package vc

import (
	"fmt"
	"go/types"
	"strconv"
	"strings"

	"gocv/internal/spec"

	"golang.org/x/tools/go/ssa"
	"golang.org/x/tools/go/ssa/ssautil"
)

// ---- maps ------------------------------------------------------------------

// Map model: a map value is an Int reference m (0 = nil). Presence is
// dom[m][code(k)], the count is len[m], and the value of m[k] lives in the
// ordinary heap at location (-m, code(k)) typed by the element type.

func mapCellKey(t types.Type) string { return "M$" + sanitize(typeName(t.Underlying())) }

func (f *fnState) keyCode(k SV) string {
	switch k.Sort {
	case sInt:
		return k.T
	case sBool:
		return fmt.Sprintf("(ite %s 1 0)", k.T)
	case sStr:
		return fmt.Sprintf("(strcode %s)", k.T)
	}
	if k.Sort == "(Array Int Int)" {
		return fmt.Sprintf("(arrcode %s)", k.T)
	}
	if k.Sort == sLoc {
		return fmt.Sprintf("(kpair (l-ref %s) (l-idx %s))", k.T, k.T)
	}
	if len(k.Agg) > 0 {
		// struct keys (time.Time): the code of the tuple of component codes
		code := f.keyCode(k.Agg[len(k.Agg)-1])
		for i := len(k.Agg) - 2; i >= 0; i-- {
			code = fmt.Sprintf("(kpair %s %s)", f.keyCode(k.Agg[i]), code)
		}
		return code
	}
	f.unsupported("map key of sort " + k.Sort)
	return "0"
}

func mapSlot(m string, code string) string { return fmt.Sprintf("(mk-loc (- %s) %s)", m, code) }

func (f *fnState) mapDom() string { return f.get(f.cur, "M$dom", "(Array Int (Array Int Bool))").T }
func (f *fnState) mapLen() string { return f.get(f.cur, "M$len", "(Array Int Int)").T }

func (f *fnState) iteSV(c string, a, b SV) SV {
	if len(a.Agg) > 0 {
		out := SV{Typ: a.Typ}
		for i := range a.Agg {
			out.Agg = append(out.Agg, f.iteSV(c, a.Agg[i], b.Agg[i]))
		}
		return out
	}
	return f.mk(a.Typ, fmt.Sprintf("(ite %s %s %s)", c, a.T, b.T))
}

func (f *fnState) lookup(i *ssa.Lookup) {
	x := f.val(i.X)
	k := f.val(i.Index)
	if _, ok := i.X.Type().Underlying().(*types.Map); !ok {
		// string index
		f.oblige("SAFE:index", "", f.site(), fmt.Sprintf("(and (<= 0 %s) (< %s (slen %s)))", k.T, k.T, x.T))
		sv := f.mk(i.Type(), fmt.Sprintf("(sbyte %s %s)", x.T, k.T))
		f.typeFacts(sv)
		f.vals[i] = sv
		return
	}
	mt := i.X.Type().Underlying().(*types.Map)
	code := f.keyCode(k)
	present := f.define("present", sBool, fmt.Sprintf("(select (select %s %s) %s)", f.mapDom(), x.T, code))
	v := f.heapAccess(f.cur, mapSlot(x.T, code), mt.Elem(), nil, nil, nil)
	val := f.iteSV(present, v, zeroValue(mt.Elem()))
	if i.CommaOk {
		f.vals[i] = SV{Typ: i.Type(), Agg: []SV{val, {Typ: types.Typ[types.Bool], Sort: sBool, T: present}}}
		return
	}
	f.vals[i] = val
}

func (f *fnState) makeMap(i *ssa.MakeMap) {
	r := f.newRef()
	mt := i.Type().Underlying().(*types.Map)
	if i.Reserve != nil {
		n := f.val(i.Reserve)
		f.meterAlloc(fmt.Sprintf("(* %s %d)", n.T, sizes.Sizeof(mt.Key())+sizes.Sizeof(mt.Elem())))
	}
	f.assume(fmt.Sprintf("(= (select %s %s) ((as const (Array Int Bool)) false))", f.mapDom(), r))
	f.assume(fmt.Sprintf("(= (select %s %s) 0)", f.mapLen(), r))
	f.vals[i] = f.mk(i.Type(), r)
}

func (f *fnState) mapUpdate(i *ssa.MapUpdate) {
	m := f.val(i.Map)
	k := f.val(i.Key)
	v := f.val(i.Value)
	mt := i.Map.Type().Underlying().(*types.Map)
	f.oblige("SAFE:nilmap", "", f.site(), fmt.Sprintf("(not (= %s 0))", m.T))
	code := f.define("kc", sInt, f.keyCode(k))
	dom, ln := f.mapDom(), f.mapLen()
	was := fmt.Sprintf("(select (select %s %s) %s)", dom, m.T, code)
	f.set("M$len", SV{Sort: "(Array Int Int)", T: f.define("M_len", "(Array Int Int)",
		fmt.Sprintf("(store %s %s (ite %s (select %s %s) (+ (select %s %s) 1)))", ln, m.T, was, ln, m.T, ln, m.T))})
	f.set("M$dom", SV{Sort: "(Array Int (Array Int Bool))", T: f.define("M_dom", "(Array Int (Array Int Bool))",
		fmt.Sprintf("(store %s %s (store (select %s %s) %s true))", dom, m.T, dom, m.T, code))})
	f.heapAccess(f.cur, mapSlot(m.T, code), mt.Elem(), nil, nil, &v)
}

func (f *fnState) rangeInit(i *ssa.Range) {
	x := f.val(i.X)
	key := "R:" + i.Name()
	f.rangeIt[i] = key
	if _, ok := i.X.Type().Underlying().(*types.Map); !ok {
		f.unsupported("range over string")
	}
	f.cur.cells[key] = SV{Typ: types.Typ[types.Int], Sort: sInt, T: "0"}
	f.markModified(key)
	// the order chosen by the runtime for this execution of the range statement
	oid := f.fresh("ord", sInt)
	f.cur.cells[key+":ord"] = SV{Sort: sInt, T: oid}
	f.markModified(key + ":ord")
	f.vals[i] = SV{Typ: i.Type(), Sort: sInt, T: x.T}
}

func (f *fnState) rangeNext(i *ssa.Next) {
	rg, ok := i.Iter.(*ssa.Range)
	if !ok || i.IsString {
		f.unsupported("next over string")
		f.vals[i] = f.freshOf("next", i.Type())
		return
	}
	key := "R:" + rg.Name()
	pos := f.cur.cells[key]
	oid := f.cur.cells[key+":ord"]
	m := f.val(rg)
	mt := rg.X.Type().Underlying().(*types.Map)
	okT := f.define("rok", sBool, fmt.Sprintf("(< %s (select %s %s))", pos.T, f.mapLen(), m.T))
	kv := f.freshOf("rk", mt.Key())
	code := f.keyCode(kv)
	f.note("ghost: map iteration order is an arbitrary enumeration ord(o, i) of the key set, one o per range execution")
	f.assume(fmt.Sprintf("(=> %s (and (= %s (mapord %s %s)) (select (select %s %s) %s)))", okT, code, oid.T, pos.T, f.mapDom(), m.T, code))
	vv := f.heapAccess(f.cur, mapSlot(m.T, code), mt.Elem(), nil, nil, nil)
	f.cur.cells[key] = SV{Typ: types.Typ[types.Int], Sort: sInt, T: f.define("rpos", sInt, fmt.Sprintf("(ite %s (+ %s 1) %s)", okT, pos.T, pos.T))}
	f.markModified(key)
	f.vals[i] = SV{Typ: i.Type(), Agg: []SV{{Typ: types.Typ[types.Bool], Sort: sBool, T: okT}, kv, vv}}
}

// ---- calls -----------------------------------------------------------------

func (f *fnState) call(i *ssa.Call) {
	c := i.Common()
	if c.IsInvoke() {
		recv := f.val(c.Value)
		f.oblige("SAFE:nil", "", f.site(), fmt.Sprintf("(not (= %s %s))", recv.T, nilIface))
		key := ifaceKey(c.Value.Type(), c.Method.Name())
		fc := f.e.Iface[key]
		args := []SV{recv}
		for _, a := range c.Args {
			args = append(args, f.val(a))
		}
		if fc == nil {
			f.vals[i] = f.unknownCall(key, i.Type())
			return
		}
		names := []string{"self"}
		sig := c.Method.Type().(*types.Signature)
		for k := 0; k < sig.Params().Len(); k++ {
			names = append(names, sig.Params().At(k).Name())
		}
		f.vals[i] = f.applyContract(fc, key, names, args, sig, i.Type())
		return
	}
	switch callee := c.Value.(type) {
	case *ssa.Builtin:
		f.builtin(i, callee)
	case *ssa.Function:
		var args []SV
		for _, a := range c.Args {
			args = append(args, f.val(a))
		}
		key := callee.String()
		if o := callee.Origin(); o != nil {
			key = o.String()
		}
		sig := callee.Signature
		var names []string
		if sig.Recv() != nil {
			names = append(names, sig.Recv().Name())
		}
		for k := 0; k < sig.Params().Len(); k++ {
			names = append(names, sig.Params().At(k).Name())
		}
		fc := f.e.Contracts[key]
		// a specialised contract applies when an interface argument's dynamic type is known statically
		for k, a := range c.Args {
			if mi, ok := a.(*ssa.MakeInterface); ok && k < len(names) {
				sk := fmt.Sprintf("%s[%s:%s]", key, names[k], types.TypeString(mi.X.Type(), nil))
				if sfc := f.e.Contracts[sk]; sfc != nil {
					fc, key = sfc, sk
				}
			}
		}
		if fc == nil && pureStdlib(callee) {
			f.vals[i] = f.pureCall(callee, args, i.Type())
			return
		}
		if fc == nil && f.e.effectFree(callee, map[*ssa.Function]bool{}) {
			f.note("callees without a contract that write no memory are treated as pure (arbitrary result): " + callee.String())
			if t, ok := i.Type().(*types.Tuple); ok && t.Len() == 0 {
				f.vals[i] = SV{Typ: i.Type()}
			} else {
				f.vals[i] = f.freshOf("pure", i.Type())
			}
			return
		}
		if fc == nil {
			if f.canInline(callee) {
				f.vals[i] = f.inlineCall(callee, args, i.Type())
				return
			}
			f.vals[i] = f.unknownCall(key, i.Type())
			return
		}
		f.vals[i] = f.applyContract(fc, key, names, args, sig, i.Type())
	default:
		// a call through a function value obeys the contract declared for its function type, if any
		sig, _ := c.Value.Type().Underlying().(*types.Signature)
		key := "functype:?"
		if sig != nil {
			key = "functype:" + SigKey(sig)
		}
		if fc := f.e.Contracts[key]; fc != nil {
			var args []SV
			for _, a := range c.Args {
				args = append(args, f.val(a))
			}
			f.vals[i] = f.applyContract(fc, key, fc.ParamNames, args, sig, i.Type())
			return
		}
		f.vals[i] = f.unknownCall("dynamic call of "+typeName(c.Value.Type()), i.Type())
	}
}

func ifaceKey(t types.Type, method string) string {
	return typeName(t) + "." + method
}

// unknownCall: no contract — arbitrary result, arbitrary effect on the heap.
func (f *fnState) unknownCall(what string, rt types.Type) SV {
	f.note("uncontracted call treated as arbitrary (result and heap havocked): " + what)
	for _, k := range sortedKeys(f.cellSort) {
		if strings.HasPrefix(k, "L:") || strings.HasPrefix(k, "R:") {
			continue
		}
		s := f.cellSort[k]
		if k == "G$nextref" {
			old := f.get(f.cur, k, sInt).T
			n := f.fresh("nextref", sInt)
			f.fact(fmt.Sprintf("(>= %s %s)", n, old))
			f.set(k, SV{Sort: sInt, T: n})
			continue
		}
		f.set(k, SV{Sort: s, T: f.fresh(mapName(k), s)})
	}
	if t, ok := rt.(*types.Tuple); ok && t.Len() == 0 {
		return SV{Typ: rt}
	}
	return f.freshOf("ret", rt)
}

func resultNames(sig *types.Signature) []string {
	var out []string
	res := sig.Results()
	for i := 0; i < res.Len(); i++ {
		n := res.At(i).Name()
		if n == "" || n == "_" {
			if res.Len() == 1 {
				n = "result"
			} else {
				n = fmt.Sprintf("result%d", i)
			}
		}
		out = append(out, n)
	}
	return out
}

// applyContract: assert requires, havoc modifies, assume ensures.
func (f *fnState) applyContract(fc *spec.FuncContract, key string, names []string, args []SV, sig *types.Signature, rt types.Type) SV {
	binds := map[string]SV{}
	for k, n := range names {
		if k < len(args) && n != "" && n != "_" {
			binds[n] = args[k]
		}
	}
	pre := f.cur.clone()
	pkg := f.e.typesPkg(fc.PkgPath)
	ctx := &specCtx{f: f, env: f.cur, old: pre, binds: binds, pkg: pkg, callee: true}
	short := key
	if j := strings.LastIndex(short, "/"); j >= 0 {
		short = short[j+1:]
	}
	for _, c := range fc.Requires {
		t := f.specBool(c.E, ctx)
		f.oblige("PRE", c.Label, fmt.Sprintf("%s requires %s @ %s", short, normSite(c.Text), f.site()), t)
	}
	// effects
	f.havocModifies(fc, ctx, pre)
	// results
	// results are run-local; for assumed (external) contracts the two runs of a
	// non-interference check get the same results whenever the arguments agree
	rp := "c_"
	var res SV
	if t, ok := rt.(*types.Tuple); ok {
		res = SV{Typ: rt}
		rn := resultNames(sig)
		for k := 0; k < t.Len(); k++ {
			v := f.freshOf(rp+rn[k], t.At(k).Type())
			res.Agg = append(res.Agg, v)
			binds[rn[k]] = v
		}
	} else {
		res = f.freshOf(rp+"res", rt)
		rn := resultNames(sig)
		if len(rn) > 0 {
			binds[rn[0]] = res
		}
		binds["result"] = res
	}
	f.resultRefFacts(res)
	if fc.Assumed {
		var as []string
		for _, a := range args {
			if a.T != "" || len(a.Agg) > 0 {
				as = append(as, f.flatten(a)...)
			}
		}
		f.detFacts = append(f.detFacts, detFact{at: len(f.log), args: as, res: f.flatten(res)})
	}
	post := &specCtx{f: f, env: f.cur, old: pre, binds: binds, pkg: pkg, callee: true}
	for _, c := range fc.Ensures {
		f.assume(f.specBool(c.E, post))
	}
	// a callee's verified non-interference clause may be used relationally by the caller's NI check
	if !fc.Assumed {
		for _, ni := range fc.NI {
			var as []string
			for _, a := range args {
				if a.T != "" || len(a.Agg) > 0 {
					as = append(as, f.flatten(a)...)
				}
			}
			f.detFacts = append(f.detFacts, detFact{at: len(f.log), args: as, res: f.flatten(res), cond: f.specBool(ni.Cond, post)})
		}
	}
	return res
}

func (f *fnState) resultRefFacts(sv SV) {
	for _, a := range sv.Agg {
		f.resultRefFacts(a)
	}
	nr := f.get(f.cur, "G$nextref", sInt).T
	switch sv.Sort {
	case sLoc:
		f.assume(fmt.Sprintf("(< (l-ref %s) %s)", sv.T, nr))
	case sSlice:
		f.assume(fmt.Sprintf("(< (l-ref (s-loc %s)) %s)", sv.T, nr))
	case sIface:
		f.assume(fmt.Sprintf("(< (l-ref (i-ptr %s)) %s)", sv.T, nr))
	}
}

func (e *Engine) typesPkg(path string) *types.Package {
	for _, p := range e.Prog.AllPackages() {
		if p.Pkg.Path() == path {
			return p.Pkg
		}
	}
	return nil
}

// modSet describes, for one cell, which keys a callee may change.
type modSet struct {
	key   string
	any   bool
	preds []func(k string) string // k is a Loc (heap) or Int (ghost) term
}

// modSets evaluates the modifies clause in the pre-state.
func (f *fnState) modSets(fc *spec.FuncContract, ctx *specCtx) map[string]*modSet {
	out := map[string]*modSet{}
	get := func(key string) *modSet {
		m := out[key]
		if m == nil {
			m = &modSet{key: key}
			out[key] = m
		}
		return m
	}
	if fc.ModAll {
		for _, key := range sortedKeys(f.cur.cells) {
			if !strings.HasPrefix(key, "L:") && !strings.HasPrefix(key, "R:") && key != "G$nextref" {
				get(key).any = true
			}
		}
		return out
	}
	for _, it := range fc.Modifies {
		f.modItem(it.E, ctx, get)
	}
	return out
}

func (f *fnState) modItem(e spec.Expr, ctx *specCtx, get func(string) *modSet) {
	switch x := e.(type) {
	case *spec.Call:
		switch x.Fn {
		case "any", "fresh":
			if x.Fn == "fresh" && len(x.Args) == 0 {
				// fresh(): objects of any type allocated by the callee
				for _, key := range sortedKeys(f.cur.cells) {
					if strings.HasPrefix(f.cellSort[key], "(Array Loc") {
						get(key)
					}
				}
				return
			}
			for _, a := range x.Args {
				for _, key := range f.mapKeysOfTypeExpr(a, ctx) {
					m := get(key)
					if x.Fn == "any" {
						m.any = true
					}
				}
			}
			return
		case "ghost":
			// ghost(name): all of it; ghost("name", p): the entry of object p
			if nm, ok := x.Args[0].(*spec.StrLit); ok && len(x.Args) == 2 {
				o := f.specVal(x.Args[1], ctx)
				r := fmt.Sprintf("(l-ref %s)", f.locTerm(o))
				m := get("G$u$" + nm.V)
				m.preds = append(m.preds, func(k string) string { return eq(k, r) })
				return
			}
			for _, a := range x.Args {
				if nm, ok := a.(*spec.StrLit); ok {
					get("G$u$" + nm.V).any = true
				} else {
					get("G$" + a.String()).any = true
				}
			}
			return
		case "global":
			for _, a := range x.Args {
				get("V:" + f.e.resolveKey(a.String(), ctx.pkgPath())).any = true
			}
			return
		case "tr", "hw":
			if len(x.Args) == 0 {
				get("G$" + x.Fn).any = true
				return
			}
			b := f.specVal(x.Args[0], ctx)
			r := fmt.Sprintf("(l-ref (s-loc %s))", b.T)
			m := get("G$" + x.Fn)
			m.preds = append(m.preds, func(k string) string { return eq(k, r) })
			return
		case "alloc":
			get("G$alloc").any = true
			get("G$lastalloc").any = true
			return
		case "written", "taken", "failed":
			m := get("G$" + x.Fn)
			if len(x.Args) == 0 {
				m.any = true
				return
			}
			v := f.specVal(x.Args[0], ctx)
			id := f.streamID(v)
			m.preds = append(m.preds, func(k string) string { return eq(k, id) })
			return
		case "mapof":
			// mapof(m): the entries of map m (values, domain and length)
			mv := f.specVal(x.Args[0], ctx)
			get("M$dom").preds = append(get("M$dom").preds, func(k string) string { return eq(k, mv.T) })
			get("M$len").preds = append(get("M$len").preds, func(k string) string { return eq(k, mv.T) })
			if mt, ok := mv.Typ.Underlying().(*types.Map); ok {
				for _, key := range f.leafKeys(mt.Elem()) {
					m := get(key)
					m.preds = append(m.preds, func(k string) string { return fmt.Sprintf("(= (l-ref %s) (- %s))", k, mv.T) })
				}
			}
			return
		}
	case *spec.Unary:
		if x.Op == "*" {
			p := f.specVal(x.X, ctx)
			if p.LV != nil {
				for _, key := range f.leafKeys(p.LV.RootT) {
					loc := f.locTerm(p)
					get(key).preds = append(get(key).preds, func(k string) string { return eq(k, loc) })
				}
				return
			}
		}
	case *spec.Sel:
		// p.f.g : one location of the field map of a (nested) struct field
		if base, names := selChain(x); len(names) > 1 {
			if p := f.specVal(base, ctx); p.LV != nil && len(p.LV.Path) == 0 {
				t := p.LV.RootT
				ok := true
				for _, n := range names {
					st, isSt := t.Underlying().(*types.Struct)
					if !isSt {
						ok = false
						break
					}
					found := false
					for k := 0; k < st.NumFields(); k++ {
						if st.Field(k).Name() == n {
							t = st.Field(k).Type()
							found = true
						}
					}
					if !found {
						ok = false
						break
					}
				}
				if ok {
					loc := f.locTerm(p)
					for _, key := range f.leafKeysAt(p.LV.RootT, names, t) {
						get(key).preds = append(get(key).preds, func(k string) string { return eq(k, loc) })
					}
					return
				}
			}
		}
		// p.f : one location of a field map
		p := f.specVal(x.X, ctx)
		if p.LV != nil {
			if st, ok := p.LV.RootT.Underlying().(*types.Struct); ok {
				for i := 0; i < st.NumFields(); i++ {
					if st.Field(i).Name() == x.Name {
						loc := f.locTerm(p)
						for _, key := range f.leafKeysAt(p.LV.RootT, []string{x.Name}, st.Field(i).Type()) {
							get(key).preds = append(get(key).preds, func(k string) string { return eq(k, loc) })
						}
						return
					}
				}
			}
		}
	case *spec.SliceE:
		s := f.specVal(x.X, ctx)
		if st, ok := s.Typ.Underlying().(*types.Slice); ok {
			lo, hi := "0", fmt.Sprintf("(s-len %s)", s.T)
			if x.Lo != nil {
				lo = f.specVal(x.Lo, ctx).T
			}
			if x.Hi != nil {
				hi = f.specVal(x.Hi, ctx).T
			}
			base := s.T
			for _, key := range f.leafKeys(st.Elem()) {
				get(key).preds = append(get(key).preds, func(k string) string {
					return fmt.Sprintf("(and (= (l-ref %s) (l-ref (s-loc %s))) (<= (+ (l-idx (s-loc %s)) %s) (l-idx %s)) (< (l-idx %s) (+ (l-idx (s-loc %s)) %s)))", k, base, base, lo, k, k, base, hi)
				})
			}
			return
		}
	}
	f.fail("%s: unsupported modifies item %s", f.fn, e)
}

// leafKeys lists the heap maps that hold an object of type t at its own location.
func (f *fnState) leafKeys(t types.Type) []string {
	return f.leafKeysAt(nil, nil, t)
}

func (f *fnState) leafKeysAt(root types.Type, names []string, t types.Type) []string {
	switch u := t.Underlying().(type) {
	case *types.Struct:
		if root == nil {
			root = t
			names = nil
		}
		var out []string
		for i := 0; i < u.NumFields(); i++ {
			out = append(out, f.leafKeysAt(root, append(append([]string(nil), names...), u.Field(i).Name()), u.Field(i).Type())...)
		}
		return out
	case *types.Array:
		if root == nil {
			return f.leafKeysAt(nil, nil, u.Elem())
		}
	}
	var key string
	if root != nil {
		key = structFieldMapKey(root, names)
	} else {
		key = elemMapKey(t)
	}
	vs := sortOf(t)
	if vs != "" {
		if f.cellSort[key] == "" {
			f.cellSort[key] = "(Array Loc " + vs + ")"
		}
	}
	return []string{key}
}

// mapKeysOfTypeExpr resolves `T.f`, `T` (all fields) or an element type name to heap map keys.
func (f *fnState) mapKeysOfTypeExpr(e spec.Expr, ctx *specCtx) []string {
	text := e.String()
	if t := ctx.resolveType(text); t != nil {
		return f.leafKeys(t)
	}
	if i := strings.LastIndex(text, "."); i > 0 {
		if t := ctx.resolveType(text[:i]); t != nil {
			if st, ok := t.Underlying().(*types.Struct); ok {
				for k := 0; k < st.NumFields(); k++ {
					if st.Field(k).Name() == text[i+1:] {
						return f.leafKeysAt(t, []string{text[i+1:]}, st.Field(k).Type())
					}
				}
			}
		}
	}
	f.fail("%s: cannot resolve type expression %q in modifies", f.fn, text)
	return nil
}

// havocModifies gives every cell named in the modifies clause a new version,
// constrained to agree with the old one outside the named locations (and outside
// memory allocated by the callee).
func (f *fnState) havocModifies(fc *spec.FuncContract, ctx *specCtx, pre *env) {
	sets := f.modSets(fc, ctx)
	nrOld := f.get(pre, "G$nextref", sInt).T
	nr := f.fresh("nextref", sInt)
	f.fact(fmt.Sprintf("(>= %s %s)", nr, nrOld))
	f.set("G$nextref", SV{Sort: sInt, T: nr})
	for _, key := range sortedKeys(sets) {
		ms := sets[key]
		s := f.cellSort[key]
		if s == "" {
			switch {
			case key == "G$alloc" || key == "G$lastalloc":
				s = sInt
			case key == "G$tr" || key == "G$written":
				s = "(Array Int Tr)"
			case strings.HasPrefix(key, "G$"):
				s = "(Array Int Int)"
			case strings.HasPrefix(key, "V:"):
				continue
			default:
				f.fail("%s: unknown sort of modified cell %s", f.fn, key)
			}
			f.cellSort[key] = s
		}
		old := f.get(pre, key, s).T
		nv := f.fresh(mapName(key), s)
		f.set(key, SV{Sort: s, T: nv})
		if ms.any || !strings.HasPrefix(s, "(Array") {
			if key == "G$alloc" {
				f.fact(fmt.Sprintf("(>= %s %s)", nv, old))
			}
			continue
		}
		isLoc := strings.HasPrefix(s, "(Array Loc")
		ks := "Int"
		if isLoc {
			ks = "Loc"
		}
		var allowed []string
		if isLoc {
			// objects allocated by the callee, and the slots of maps it made (slot refs are negated map refs)
			allowed = append(allowed, fmt.Sprintf("(>= (l-ref fk) %s)", nrOld))
			if f.mapValKey(key) {
				allowed = append(allowed, fmt.Sprintf("(<= (l-ref fk) (- %s))", nrOld))
			}
		} else if key == "G$tr" || key == "G$hw" || key == "M$dom" || key == "M$len" {
			allowed = append(allowed, fmt.Sprintf("(>= fk %s)", nrOld))
		}
		for _, p := range ms.preds {
			allowed = append(allowed, p("fk"))
		}
		f.assume(fmt.Sprintf("(forall ((fk %s)) (! (=> (not %s) (= (select %s fk) (select %s fk))) :pattern ((select %s fk))))", ks, or(allowed...), nv, old, nv))
		f.closure(nv, s, nr)
	}
}

// frameCheck: at a return, every heap cell agrees with its entry version
// outside the modifies clause (and outside memory allocated in this call).
func (f *fnState) frameCheck() {
	if f.fc != nil && f.fc.ModAll {
		return
	}
	ctx := &specCtx{f: f, env: f.entry, old: f.entry, binds: f.params, pkg: f.fn.Pkg.Pkg}
	sets := f.modSets(f.fc, ctx)
	for _, key := range sortedKeys(f.cur.cells) {
		f.frameGoal(key, sets, "FRAME", "modifies @ "+f.site())
	}
}

func (f *fnState) frameGoal(key string, sets map[string]*modSet, class, site string) {
	if strings.HasPrefix(key, "L:") || strings.HasPrefix(key, "R:") || strings.HasPrefix(key, "V:") || key == "G$nextref" {
		return
	}
	s := f.cellSort[key]
	cur := f.cur.cells[key].T
	old := f.get(f.entry, key, s).T
	if cur == old {
		return
	}
	ms := sets[key]
	if ms != nil && ms.any {
		return
	}
	if !strings.HasPrefix(s, "(Array") {
		if ms == nil {
			if class == "" {
				return
			}
			f.oblige(class, "", site+": "+key, eq(cur, old))
		}
		return
	}
	isLoc := strings.HasPrefix(s, "(Array Loc")
	k := f.frameK[key]
	if k == "" {
		if isLoc {
			k = f.fresh("fk_"+mapName(key), sLoc)
		} else {
			k = f.fresh("fk_"+mapName(key), sInt)
		}
		f.frameK[key] = k
	}
	var allowed []string
	if isLoc {
		allowed = append(allowed, fmt.Sprintf("(>= (l-ref %s) %s)", k, f.get(f.entry, "G$nextref", sInt).T))
		if f.mapValKey(key) {
			allowed = append(allowed, fmt.Sprintf("(<= (l-ref %s) (- %s))", k, f.get(f.entry, "G$nextref", sInt).T))
		}
	} else if key == "G$tr" || key == "G$hw" || key == "M$dom" || key == "M$len" {
		// ghost state of buffers allocated in this call
		allowed = append(allowed, fmt.Sprintf("(>= %s %s)", k, f.get(f.entry, "G$nextref", sInt).T))
	}
	if ms != nil {
		for _, p := range ms.preds {
			allowed = append(allowed, p(k))
		}
	}
	goal := or(append(allowed, fmt.Sprintf("(= (select %s %s) (select %s %s))", cur, k, old, k))...)
	if class == "" {
		// the obligation is shown for an arbitrary location; it may be used for every location
		ks := "Int"
		if isLoc {
			ks = "Loc"
		}
		qg := strings.ReplaceAll(goal, k, "fk")
		f.assume(fmt.Sprintf("(forall ((fk %s)) (! %s :pattern ((select %s fk))))", ks, qg, cur))
		return
	}
	f.oblige(class, "", site+": "+key, goal)
}

// frameInvariants carries the frame condition through loops with one skolem
// location per heap cell.
func (f *fnState) frameInvariants(l *loopInfo, class string) {
	if f.fc == nil || f.fc.ModAll {
		return
	}
	ctx := &specCtx{f: f, env: f.entry, old: f.entry, binds: f.params, pkg: f.fn.Pkg.Pkg}
	sets := f.modSets(f.fc, ctx)
	for _, key := range sortedKeys(l.modified) {
		if _, ok := f.cur.cells[key]; !ok {
			continue
		}
		c := class
		if c != "" {
			c = "FRAME"
		}
		f.frameGoal(key, sets, c, fmt.Sprintf("loop %d frame", l.ordinal))
	}
}

// ---- builtins --------------------------------------------------------------

func (f *fnState) builtin(i *ssa.Call, b *ssa.Builtin) {
	args := i.Common().Args
	switch b.Name() {
	case "len", "cap":
		x := f.val(args[0])
		f.vals[i] = f.lenOf(x, b.Name() == "cap")
	case "ssa:deferstack":
		f.vals[i] = f.mk(i.Type(), nilLoc)
	case "ssa:wrapnilchk":
		x := f.val(args[0])
		f.oblige("SAFE:nil", "", f.site(), fmt.Sprintf("(not (= %s %s))", f.locTerm(x), nilLoc))
		f.vals[i] = x
	case "copy":
		f.copyBuiltin(i)
	case "append":
		f.appendBuiltin(i)
	case "delete":
		m := f.val(args[0])
		k := f.val(args[1])
		code := f.define("kc", sInt, f.keyCode(k))
		dom, ln := f.mapDom(), f.mapLen()
		was := fmt.Sprintf("(select (select %s %s) %s)", dom, m.T, code)
		f.set("M$len", SV{Sort: "(Array Int Int)", T: f.define("M_len", "(Array Int Int)",
			fmt.Sprintf("(store %s %s (ite %s (- (select %s %s) 1) (select %s %s)))", ln, m.T, was, ln, m.T, ln, m.T))})
		f.set("M$dom", SV{Sort: "(Array Int (Array Int Bool))", T: f.define("M_dom", "(Array Int (Array Int Bool))",
			fmt.Sprintf("(store %s %s (store (select %s %s) %s false))", dom, m.T, dom, m.T, code))})
	case "print", "println":
	case "min", "max":
		x, y := f.val(args[0]), f.val(args[1])
		op := "<="
		if b.Name() == "max" {
			op = ">="
		}
		f.vals[i] = f.mk(i.Type(), fmt.Sprintf("(ite (%s %s %s) %s %s)", op, x.T, y.T, x.T, y.T))
	default:
		f.unsupported("builtin " + b.Name())
		f.vals[i] = f.freshOf("bi", i.Type())
	}
}

func (f *fnState) lenOf(x SV, isCap bool) SV {
	it := types.Typ[types.Int]
	switch u := x.Typ.Underlying().(type) {
	case *types.Slice:
		if isCap {
			return f.mk(it, fmt.Sprintf("(s-cap %s)", x.T))
		}
		return f.mk(it, fmt.Sprintf("(s-len %s)", x.T))
	case *types.Basic:
		return f.mk(it, fmt.Sprintf("(slen %s)", x.T))
	case *types.Map:
		sv := f.mk(it, f.define("mlen", sInt, fmt.Sprintf("(select %s %s)", f.mapLen(), x.T)))
		f.fact(fmt.Sprintf("(>= %s 0)", sv.T))
		f.fact(fmt.Sprintf("(= (select %s 0) 0)", f.mapLen()))
		return sv
	case *types.Array:
		return f.mk(it, fmt.Sprint(u.Len()))
	case *types.Pointer:
		if at, ok := u.Elem().Underlying().(*types.Array); ok {
			return f.mk(it, fmt.Sprint(at.Len()))
		}
	}
	f.unsupported("len of " + typeName(x.Typ))
	return f.freshOf("len", it)
}

func (f *fnState) copyBuiltin(i *ssa.Call) {
	args := i.Common().Args
	dst, src := f.val(args[0]), f.val(args[1])
	st := args[0].Type().Underlying().(*types.Slice)
	dl := fmt.Sprintf("(s-len %s)", dst.T)
	var sl string
	fromStr := src.Sort == sStr
	if fromStr {
		sl = fmt.Sprintf("(slen %s)", src.T)
	} else {
		sl = fmt.Sprintf("(s-len %s)", src.T)
	}
	n := f.define("ncopy", sInt, fmt.Sprintf("(ite (<= %s %s) %s %s)", dl, sl, dl, sl))
	f.vals[i] = f.mk(i.Type(), n)
	vs := sortOf(st.Elem())
	if vs == "" {
		f.unsupported("copy of aggregate elements")
		return
	}
	key := elemMapKey(st.Elem())
	ms := "(Array Loc " + vs + ")"
	old := f.heapMap(key, vs)
	nv := f.fresh(mapName(key), ms)
	f.set(key, SV{Sort: ms, T: nv})
	dloc := fmt.Sprintf("(s-loc %s)", dst.T)
	inr := func(k string) string {
		return fmt.Sprintf("(and (= (l-ref %s) (l-ref %s)) (<= (l-idx %s) (l-idx %s)) (< (l-idx %s) (+ (l-idx %s) %s)))", k, dloc, dloc, k, k, dloc, n)
	}
	f.assume(fmt.Sprintf("(forall ((fk Loc)) (! (=> (not %s) (= (select %s fk) (select %s fk))) :pattern ((select %s fk))))", inr("fk"), nv, old, nv))
	var srcAt string
	if fromStr {
		srcAt = fmt.Sprintf("(sbyte %s cj)", src.T)
	} else {
		srcAt = fmt.Sprintf("(select %s %s)", old, locOff(fmt.Sprintf("(s-loc %s)", src.T), "cj"))
	}
	f.assume(fmt.Sprintf("(forall ((cj Int)) (! (=> (and (<= 0 cj) (< cj %s)) (= (select %s %s) %s)) :pattern ((select %s %s))))",
		n, nv, locOff(dloc, "cj"), srcAt, nv, locOff(dloc, "cj")))
	if key == "E$uint8" {
		// ghost: a bulk write at the high-water mark appends the raw bytes
		r := fmt.Sprintf("(l-ref %s)", dloc)
		hw := f.get(f.cur, "G$hw", "(Array Int Int)").T
		tr := f.get(f.cur, "G$tr", "(Array Int Tr)").T
		junk := f.fresh("junk", sTr)
		at := fmt.Sprintf("(or (= %s 0) (= (l-idx %s) (select %s %s)))", n, dloc, hw, r)
		var app string
		if fromStr {
			app = fmt.Sprintf("(tr.str (select %s %s) %s %s)", tr, r, src.T, n)
		} else {
			app = fmt.Sprintf("(tr.raw (select %s %s) %s (s-loc %s) %s)", tr, r, old, src.T, n)
		}
		f.set("G$tr", SV{Sort: "(Array Int Tr)", T: f.define("G_tr", "(Array Int Tr)", fmt.Sprintf("(store %s %s (ite %s %s %s))", tr, r, at, app, junk))})
		f.set("G$hw", SV{Sort: "(Array Int Int)", T: f.define("G_hw", "(Array Int Int)", fmt.Sprintf("(store %s %s (ite %s (+ (select %s %s) %s) (select %s %s)))", hw, r, at, hw, r, n, hw, r))})
	}
}

func (f *fnState) appendBuiltin(i *ssa.Call) {
	args := i.Common().Args
	s := f.val(args[0])
	st, _ := args[0].Type().Underlying().(*types.Slice)
	// append(s, more...) — the variadic part is a slice (or a string for append([]byte, string...))
	more := f.val(args[1])
	var ml string
	if more.Sort == sStr {
		ml = fmt.Sprintf("(slen %s)", more.T)
	} else {
		ml = fmt.Sprintf("(s-len %s)", more.T)
	}
	r := f.newRef()
	nl := f.define("alen", sInt, fmt.Sprintf("(+ (s-len %s) %s)", s.T, ml))
	nc := f.fresh("acap", sInt)
	f.fact(fmt.Sprintf("(>= %s %s)", nc, nl))
	f.fact(fmt.Sprintf("(<= %s %s)", nc, pow2(47)))
	// result: either in place (same base, enough capacity) or a fresh array; model as a fresh array
	// whose first len(s) elements equal s's. Aliasing with the old backing array is not modelled.
	f.note("append is modelled as always reallocating (no aliasing with the old backing array)")
	res := f.define("app", sSlice, fmt.Sprintf("(mk-sl (mk-loc %s 0) %s %s)", r, nl, nc))
	f.vals[i] = f.mk(i.Type(), res)
	if st == nil {
		return
	}
	f.meterAlloc(fmt.Sprintf("(* %s %d)", nc, sizes.Sizeof(st.Elem())))
	for _, key := range f.leafKeys(st.Elem()) {
		ms := f.cellSort[key]
		if ms == "" {
			continue
		}
		cur := f.get(f.cur, key, ms).T
		f.assume(fmt.Sprintf("(forall ((aj Int)) (! (=> (and (<= 0 aj) (< aj (s-len %s))) (= (select %s (mk-loc %s aj)) (select %s %s))) :pattern ((select %s (mk-loc %s aj)))))",
			s.T, cur, r, cur, locOff(fmt.Sprintf("(s-loc %s)", s.T), "aj"), cur, r))
		if more.Sort == sSlice {
			f.assume(fmt.Sprintf("(forall ((aj Int)) (! (=> (and (<= 0 aj) (< aj %s)) (= (select %s (mk-loc %s (+ (s-len %s) aj))) (select %s %s))) :pattern ((select %s (mk-loc %s (+ (s-len %s) aj))))))",
				ml, cur, r, s.T, cur, locOff(fmt.Sprintf("(s-loc %s)", more.T), "aj"), cur, r, s.T))
			// append(s, x, y): a constant number of new elements — say it element by element as well
			// (triggers with arithmetic are unreliable)
			if n, err := strconv.Atoi(f.constLen(more)); err == nil && n <= 8 {
				for j := 0; j < n; j++ {
					f.assume(fmt.Sprintf("(= (select %s (mk-loc %s (+ (s-len %s) %d))) (select %s %s))", cur, r, s.T, j, cur, locOff(fmt.Sprintf("(s-loc %s)", more.T), strconv.Itoa(j))))
				}
			}
		}
	}
}

// closure: the heap stays closed under allocation — every reference stored in a cell
// designates memory below the allocation watermark (assumed of callees and of loop bodies).
func (f *fnState) closure(m, sort, nextref string) {
	var refOf string
	switch sort {
	case "(Array Loc Slice)":
		refOf = "(l-ref (s-loc (select %s hk)))"
	case "(Array Loc Loc)":
		refOf = "(l-ref (select %s hk))"
	case "(Array Loc Iface)":
		refOf = "(l-ref (i-ptr (select %s hk)))"
	default:
		return
	}
	f.assume(fmt.Sprintf("(forall ((hk Loc)) (! (< %s %s) :pattern ((select %s hk))))", fmt.Sprintf(refOf, m), nextref, m))
}

// canInline: small straight-line callees without a contract are executed in place.
func (f *fnState) canInline(callee *ssa.Function) bool {
	if f.inlining >= 2 || len(callee.Blocks) != 1 || callee.Pkg == nil || f.fn.Pkg == nil || callee.Pkg != f.fn.Pkg {
		return false
	}
	for _, ins := range callee.Blocks[0].Instrs {
		switch x := ins.(type) {
		case *ssa.Call:
			if _, ok := x.Call.Value.(*ssa.Builtin); !ok {
				return false
			}
		case *ssa.Defer, *ssa.Go, *ssa.Panic, *ssa.MakeClosure:
			return false
		}
	}
	return true
}

func (f *fnState) inlineCall(callee *ssa.Function, args []SV, rt types.Type) SV {
	f.note("straight-line callees without a contract are executed in place: " + callee.String())
	f.classifyAllocsOf(callee)
	for k, p := range callee.Params {
		if k < len(args) {
			f.vals[p] = args[k]
		}
	}
	f.inlining++
	saved := f.inlineRet
	f.inlineRet = nil
	pos := f.curPos
	for _, ins := range callee.Blocks[0].Instrs {
		f.instr(ins)
	}
	f.curPos = pos
	f.inlining--
	res := f.inlineRet
	f.inlineRet = saved
	if res != nil {
		return *res
	}
	if t, ok := rt.(*types.Tuple); ok && t.Len() == 0 {
		return SV{Typ: rt}
	}
	return f.freshOf("inl", rt)
}

// selChain splits a.b.c into (a, [b c]) where a is the innermost non-selector expression.
func selChain(e spec.Expr) (spec.Expr, []string) {
	var names []string
	for {
		s, ok := e.(*spec.Sel)
		if !ok {
			break
		}
		names = append([]string{s.Name}, names...)
		e = s.X
	}
	return e, names
}

var purePkgs = map[string]bool{"fmt": true, "strings": true, "strconv": true, "errors": true, "unicode": true, "sort": true, "bytes": true, "unicode/utf8": true, "math": true, "path": true, "path/filepath": true}

// pureStdlib: value-level helpers of the standard library do not touch program-visible memory
// other than the elements of slices they are handed (assumption, recorded in the evidence).
func pureStdlib(callee *ssa.Function) bool {
	return callee.Pkg != nil && purePkgs[callee.Pkg.Pkg.Path()] && len(callee.Blocks) == 0
}

func (f *fnState) pureCall(callee *ssa.Function, args []SV, rt types.Type) SV {
	if callee.Pkg.Pkg.Path() == "errors" && callee.Name() == "Is" && len(args) == 2 && args[0].Sort == sIface && args[1].Sort == sIface {
		return f.mk(rt, fmt.Sprintf("(errIs %s %s)", args[0].T, args[1].T))
	}
	f.note("assumption: fmt/strings/strconv/errors/unicode/sort/bytes calls change no program-visible memory except elements of slices passed to them")
	for _, a := range args {
		if callee.Pkg.Pkg.Path() != "sort" {
			break // only the sort package permutes the slices it is given
		}
		if a.Sort == sSlice && a.Typ != nil {
			if st, ok := a.Typ.Underlying().(*types.Slice); ok && sortOf(st.Elem()) != "" {
				key := elemMapKey(st.Elem())
				ms := "(Array Loc " + sortOf(st.Elem()) + ")"
				old := f.heapMap(key, sortOf(st.Elem()))
				nv := f.fresh(mapName(key), ms)
				f.set(key, SV{Sort: ms, T: nv})
				base := a.T
				f.assume(fmt.Sprintf("(forall ((fk Loc)) (! (=> (not (= (l-ref fk) (l-ref (s-loc %s)))) (= (select %s fk) (select %s fk))) :pattern ((select %s fk))))", base, nv, old, nv))
			}
		}
	}
	var res SV
	if t, ok := rt.(*types.Tuple); ok {
		if t.Len() == 0 {
			return SV{Typ: rt}
		}
		res = SV{Typ: rt}
		for k := 0; k < t.Len(); k++ {
			res.Agg = append(res.Agg, f.freshOf("lib", t.At(k).Type()))
		}
	} else {
		res = f.freshOf("lib", rt)
	}
	// results that are slices/pointers are freshly allocated
	nr := f.get(f.cur, "G$nextref", sInt).T
	n2 := f.fresh("nextref", sInt)
	f.fact(fmt.Sprintf("(>= %s %s)", n2, nr))
	f.set("G$nextref", SV{Sort: sInt, T: n2})
	f.resultRefFacts(res)
	name := callee.Pkg.Pkg.Path() + "." + callee.Name()
	if name == "fmt.Errorf" || name == "errors.New" {
		f.assume(fmt.Sprintf("(not (= %s %s))", res.T, nilIface))
		f.assume(fmt.Sprintf("(>= (l-ref (i-ptr %s)) %s)", res.T, nr)) // a new error value
		// what errors.Is sees in the result: itself, and (fmt.Errorf with %w) at most what its operands match
		wraps := "false"
		if name == "fmt.Errorf" && len(args) == 2 && args[1].Sort == sSlice {
			n, err := strconv.Atoi(strings.TrimSpace(f.constLen(args[1])))
			if err != nil || n > 8 {
				f.note("fmt.Errorf with an operand list of unknown length: nothing known about what the result wraps (" + args[1].T + ")")
				return res
			}
			var ds []string
			em := f.heapMap(elemMapKey(types.NewInterfaceType(nil, nil)), sIface)
			for k := 0; k < n; k++ {
				ds = append(ds, fmt.Sprintf("(errIs (select %s (mk-loc (l-ref (s-loc %s)) (+ (l-idx (s-loc %s)) %d))) t)", em, args[1].T, args[1].T, k))
			}
			if len(ds) > 0 {
				wraps = "(or " + strings.Join(ds, " ") + " false)"
			}
		}
		f.note("assumption: an error made by errors.New or fmt.Errorf matches (errors.Is) only itself and what its operands match")
		f.assume(fmt.Sprintf("(forall ((t Iface)) (! (=> (errIs %s t) (or (= %s t) %s)) :pattern ((errIs %s t))))", res.T, res.T, wraps, res.T))
	}
	return res
}

// effectFree: the function (with body) performs no store through a pointer it did not allocate,
// no map update, and calls only builtins, pure library helpers and effect-free functions.
func (e *Engine) effectFree(fn *ssa.Function, seen map[*ssa.Function]bool) bool {
	if v, ok := e.pureMemo[fn]; ok {
		return v
	}
	if seen[fn] {
		return true
	}
	seen[fn] = true
	if len(fn.Blocks) == 0 {
		return pureStdlib(fn)
	}
	res := true
	for _, b := range fn.Blocks {
		for _, ins := range b.Instrs {
			switch x := ins.(type) {
			case *ssa.Store:
				if !localAddr(x.Addr) {
					res = false
				}
			case *ssa.MapUpdate, *ssa.Go, *ssa.Defer, *ssa.Send, *ssa.Select, *ssa.Panic:
				res = false
			case *ssa.Call:
				switch c := x.Call.Value.(type) {
				case *ssa.Builtin:
					if c.Name() == "copy" || c.Name() == "delete" {
						res = false
					}
				case *ssa.Function:
					if x.Call.IsInvoke() || !e.effectFree(c, seen) {
						res = false
					}
				default:
					res = false
				}
			}
		}
	}
	if e.pureMemo == nil {
		e.pureMemo = map[*ssa.Function]bool{}
	}
	e.pureMemo[fn] = res
	return res
}

// localAddr: the address is (a field/element of) a local variable of the function.
func localAddr(v ssa.Value) bool {
	switch a := v.(type) {
	case *ssa.Alloc:
		return !a.Heap
	case *ssa.FieldAddr:
		return localAddr(a.X)
	case *ssa.IndexAddr:
		if _, ok := a.X.Type().Underlying().(*types.Pointer); ok {
			return localAddr(a.X)
		}
	}
	return false
}

// mapValKey: can this heap cell hold (part of) the value of a map entry? Computed per package from the
// map types that occur in its functions (another package's maps are not reachable from this one's code
// except through values of those types, which would make the type occur here as well).
func (f *fnState) mapValKey(key string) bool {
	e := f.e
	pkg := ""
	if f.fn != nil && f.fn.Pkg != nil {
		pkg = f.fn.Pkg.Pkg.Path()
	}
	e.mapValMu.Lock()
	defer e.mapValMu.Unlock()
	if e.mapValKeys == nil {
		e.mapValKeys = map[string]map[string]bool{}
	}
	set, ok := e.mapValKeys[pkg]
	if !ok {
		set = map[string]bool{}
		seen := map[types.Type]bool{}
		var visit func(t types.Type)
		visit = func(t types.Type) {
			if t == nil || seen[t] {
				return
			}
			seen[t] = true
			switch u := t.Underlying().(type) {
			case *types.Map:
				for _, k := range f.leafKeys(u.Elem()) {
					set[k] = true
				}
				visit(u.Elem())
			case *types.Struct:
				for i := 0; i < u.NumFields(); i++ {
					visit(u.Field(i).Type())
				}
			case *types.Slice:
				visit(u.Elem())
			case *types.Array:
				visit(u.Elem())
			case *types.Pointer:
				visit(u.Elem())
			}
		}
		for fn := range ssautil.AllFunctions(e.Prog) {
			if fn.Pkg == nil || len(fn.Blocks) == 0 || fn.Pkg.Pkg.Path() != pkg {
				continue
			}
			for _, b := range fn.Blocks {
				for _, ins := range b.Instrs {
					if v, ok := ins.(ssa.Value); ok {
						visit(v.Type())
					}
				}
			}
		}
		e.mapValKeys[pkg] = set
	}
	return set[key]
}
