// Package vc generates verification conditions for Go functions in go/ssa
// naive form against //@ contracts, and discharges them with SMT solvers.
package vc

import (
	"fmt"
	"go/token"
	"go/types"
	"os"
	"path/filepath"
	"sort"
	"strings"
	"sync"

	"gocv/internal/spec"

	"golang.org/x/tools/go/packages"
	"golang.org/x/tools/go/ssa"
	"golang.org/x/tools/go/ssa/ssautil"
)

// Engine holds the loaded program and all contracts.
type Engine struct {
	BadPkgs    map[string][]string // initial packages left out by a tolerant Load, with their errors
	RawLemmas  []RawLemma
	NoBatch    bool // solve every frame obligation on its own
	mapValMu   sync.Mutex
	mapValKeys map[string]map[string]bool // per package: heap cells that can hold map values
	Fset       *token.FileSet
	Prog       *ssa.Program
	Pkgs       []*packages.Package
	SSAPkgs    []*ssa.Package
	Contracts  map[string]*spec.FuncContract // by function key (ssa Function.String())
	Iface      map[string]*spec.FuncContract // "io.Reader.Read"
	SpecFuncs  map[string]*spec.SpecFunc
	Bundles    map[string]*spec.HeapBundle
	bundleKeys map[string][][2]string
	Axioms     []*spec.Axiom
	RawSMT     []string
	RawSMTLate map[string][]string // per package path: emitted after the spec function declarations (package-level axioms)
	typeTags   map[string]int
	theory     map[string]string
	pureMemo   map[*ssa.Function]bool
	srcLines   map[string][]string
	// Options
	CheckOverflow bool
	WorkDir       string
	TimeoutS      int
	Assumptions   map[string]bool // global notes collected while generating VCs
}

// Load loads the packages matching patterns in dir (build tag verif) and builds naive SSA.
func Load(dir string, patterns ...string) (*Engine, error) {
	cfg := &packages.Config{
		Mode:       packages.LoadAllSyntax,
		Dir:        dir,
		BuildFlags: []string{"-tags=verif"},
		Env:        append(os.Environ(), "GOFLAGS=-mod=mod", "GOPROXY=off", "GOSUMDB=off", "GOTOOLCHAIN=local"),
	}
	pkgs, err := packages.Load(cfg, patterns...)
	if err != nil {
		return nil, err
	}
	var errs []string
	bad := map[string][]string{}
	if Tolerant {
		// initial packages that do not type-check are left out (and reported by the caller); an error in a
		// dependency is still fatal
		var good []*packages.Package
		for _, p := range pkgs {
			if len(p.Errors) > 0 || p.IllTyped {
				for _, e := range p.Errors {
					bad[p.PkgPath] = append(bad[p.PkgPath], e.Error())
				}
				if len(bad[p.PkgPath]) == 0 {
					bad[p.PkgPath] = []string{"ill-typed (error in a dependency)"}
				}
				continue
			}
			good = append(good, p)
		}
		pkgs = good
	}
	packages.Visit(pkgs, nil, func(p *packages.Package) {
		for _, e := range p.Errors {
			errs = append(errs, e.Error())
		}
	})
	if len(errs) > 0 {
		return nil, fmt.Errorf("load errors:\n%s", strings.Join(errs, "\n"))
	}
	prog, spkgs := ssautil.Packages(pkgs, ssa.NaiveForm)
	for _, p := range spkgs {
		if p != nil {
			p.Build()
		}
	}
	e := &Engine{
		Prog: prog, Pkgs: pkgs, SSAPkgs: spkgs,
		Contracts: map[string]*spec.FuncContract{}, Iface: map[string]*spec.FuncContract{},
		SpecFuncs: map[string]*spec.SpecFunc{}, Bundles: map[string]*spec.HeapBundle{}, bundleKeys: map[string][][2]string{}, typeTags: map[string]int{}, srcLines: map[string][]string{},
		Assumptions: map[string]bool{}, TimeoutS: 10, RawSMTLate: map[string][]string{},
	}
	if len(pkgs) > 0 {
		e.Fset = pkgs[0].Fset
	}
	e.BadPkgs = bad
	return e, nil
}

// Tolerant makes Load leave out initial packages that do not type-check instead of failing.
var Tolerant bool

// BuildDep builds the SSA bodies of a dependency package (e.g. "io") so its
// functions can be verified from GOROOT source.
func (e *Engine) BuildDep(path string) *ssa.Package {
	for _, p := range e.Prog.AllPackages() {
		if p.Pkg.Path() == path {
			p.Build()
			return p
		}
	}
	return nil
}

// AddContractFile parses a contract file and registers its content. pkgPath
// is the package unqualified function names belong to.
func (e *Engine) AddContractFile(path, pkgPath string) error {
	f, err := spec.ParseFile(path, pkgPath)
	if err != nil {
		return err
	}
	for _, fc := range f.Funcs {
		if strings.HasPrefix(fc.Name, "functype:") {
			// key by the printed type: strip parameter names and qualify package-local type names
			if k := e.functypeKey(fc.Name, pkgPath); k != "" {
				e.Contracts[k] = fc
				continue
			}
			initial := false
			for _, p := range e.Pkgs {
				if p.PkgPath == pkgPath {
					initial = true
				}
			}
			if !initial {
				continue // the package is not under verification here: calls through its function types do not occur
			}
			return fmt.Errorf("%s:%d: cannot resolve function type %q", path, fc.Line, fc.Name)
		}
		key := e.resolveKey(fc.Name, pkgPath)
		if fc.Interface {
			e.Iface[key] = fc
		} else {
			if old, dup := e.Contracts[key]; dup {
				return fmt.Errorf("%s:%d: duplicate contract for %s (first at %s:%d)", path, fc.Line, key, old.File, old.Line)
			}
			e.Contracts[key] = fc
		}
	}
	for _, sf := range f.Specs {
		e.SpecFuncs[sf.Name] = sf
	}
	for _, hb := range f.Bundles {
		e.Bundles[hb.Name] = hb
	}
	e.Axioms = append(e.Axioms, f.Axioms...)
	e.RawSMT = append(e.RawSMT, f.RawSMT...)
	return nil
}

// AddContractFilesIn registers every verif_contracts*.go of the loaded packages.
func (e *Engine) AddContractFilesIn() error {
	var all []*packages.Package
	seen := map[string]bool{}
	packages.Visit(e.Pkgs, nil, func(p *packages.Package) {
		if seen[p.PkgPath] {
			return
		}
		seen[p.PkgPath] = true
		// initial packages and dependencies that belong to the repository under verification
		if strings.HasPrefix(p.PkgPath, "github.com/200sc/bebop") {
			all = append(all, p)
		}
	})
	for _, p := range e.Pkgs {
		if !strings.HasPrefix(p.PkgPath, "github.com/200sc/bebop") {
			all = append(all, p)
		}
	}
	sort.Slice(all, func(i, j int) bool { return all[i].PkgPath < all[j].PkgPath })
	for _, p := range all {
		if len(p.GoFiles) == 0 {
			continue
		}
		dir := filepath.Dir(p.GoFiles[0])
		ms, _ := filepath.Glob(filepath.Join(dir, "verif_contracts*.go"))
		sort.Strings(ms)
		for _, m := range ms {
			if err := e.AddContractFile(m, p.PkgPath); err != nil {
				return err
			}
		}
	}
	return nil
}

// resolveKey turns a name as written in a contract file into the ssa function key.
//
//	ReadUint32            -> <pkgPath>.ReadUint32
//	(*ErrorReader).Read   -> (*<pkgPath>.ErrorReader).Read
//	(ErrorReader).Read    -> (<pkgPath>.ErrorReader).Read
//	io.ReadFull           -> io.ReadFull
//	(*io.LimitedReader).Read
//	io.Reader.Read        -> interface method
func (e *Engine) resolveKey(name, pkgPath string) string {
	if i := strings.Index(name, "["); i > 0 && strings.HasSuffix(name, "]") {
		// specialisation io.ReadFull[r:*iohelp.ErrorReader]
		inner := name[i+1 : len(name)-1]
		if j := strings.Index(inner, ":"); j > 0 {
			tn := inner[j+1:]
			stars := ""
			for strings.HasPrefix(tn, "*") {
				stars += "*"
				tn = tn[1:]
			}
			if k := strings.LastIndex(tn, "."); k > 0 {
				if pp := e.pkgPathByName(tn[:k]); pp != "" {
					tn = pp + tn[k:]
				}
			} else if pkgPath != "" {
				tn = pkgPath + "." + tn
			}
			return e.resolveKey(name[:i], pkgPath) + "[" + inner[:j] + ":" + stars + tn + "]"
		}
	}
	qual := func(tn string) string {
		if strings.Contains(tn, ".") || pkgPath == "" {
			// expand a package *name* to its path when it is an import of a loaded package
			i := strings.LastIndex(tn, ".")
			if i > 0 {
				if pp := e.pkgPathByName(tn[:i]); pp != "" {
					return pp + tn[i:]
				}
			}
			return tn
		}
		return pkgPath + "." + tn
	}
	if strings.HasPrefix(name, "(") {
		j := strings.Index(name, ").")
		recv := name[1:j]
		meth := name[j+2:]
		if strings.HasPrefix(recv, "*") {
			return "(*" + qual(recv[1:]) + ")." + meth
		}
		return "(" + qual(recv) + ")." + meth
	}
	return qual(name)
}

func (e *Engine) pkgPathByName(name string) string {
	if strings.Contains(name, "/") {
		return name
	}
	var found string
	for _, p := range e.Prog.AllPackages() {
		if p.Pkg.Name() == name {
			if found == "" || len(p.Pkg.Path()) < len(found) {
				found = p.Pkg.Path()
			}
		}
	}
	return found
}

func (e *Engine) typeTag(t types.Type) int {
	k := types.TypeString(t, nil)
	if n, ok := e.typeTags[k]; ok {
		return n
	}
	n := len(e.typeTags) + 1
	e.typeTags[k] = n
	return n
}

// srcLine returns the trimmed source line of a position ("" if unknown).
func (e *Engine) srcLine(pos token.Pos) string {
	if !pos.IsValid() || e.Fset == nil {
		return ""
	}
	p := e.Fset.Position(pos)
	lines, ok := e.srcLines[p.Filename]
	if !ok {
		b, err := os.ReadFile(p.Filename)
		if err == nil {
			lines = strings.Split(string(b), "\n")
		}
		e.srcLines[p.Filename] = lines
	}
	if p.Line-1 < len(lines) && p.Line >= 1 {
		return strings.TrimSpace(lines[p.Line-1])
	}
	return ""
}

// Functions returns the source-level functions (incl. methods) of a loaded package, sorted.
func (e *Engine) Functions(pkgPath string) []*ssa.Function {
	var out []*ssa.Function
	seen := map[*ssa.Function]bool{}
	for _, p := range e.SSAPkgs {
		if p == nil || p.Pkg.Path() != pkgPath {
			continue
		}
		for _, m := range p.Members {
			switch m := m.(type) {
			case *ssa.Function:
				if m.Synthetic == "" && !seen[m] {
					seen[m] = true
					out = append(out, m)
				}
			case *ssa.Type:
				for _, T := range []types.Type{m.Type(), types.NewPointer(m.Type())} {
					ms := e.Prog.MethodSets.MethodSet(T)
					for i := 0; i < ms.Len(); i++ {
						f := e.Prog.MethodValue(ms.At(i))
						if f != nil && f.Synthetic == "" && !seen[f] && f.Pkg == p {
							seen[f] = true
							out = append(out, f)
						}
					}
				}
			}
		}
	}
	// anonymous functions
	for i := 0; i < len(out); i++ {
		for _, a := range out[i].AnonFuncs {
			if !seen[a] {
				seen[a] = true
				out = append(out, a)
			}
		}
	}
	sort.Slice(out, func(i, j int) bool { return out[i].Pos() < out[j].Pos() })
	return out
}

// FuncByKey finds a function by its ssa key among loaded packages (and built deps).
func (e *Engine) FuncByKey(key string) *ssa.Function {
	for _, p := range e.Prog.AllPackages() {
		for _, m := range p.Members {
			switch m := m.(type) {
			case *ssa.Function:
				if m.String() == key {
					return m
				}
			case *ssa.Type:
				for _, T := range []types.Type{m.Type(), types.NewPointer(m.Type())} {
					ms := e.Prog.MethodSets.MethodSet(T)
					for i := 0; i < ms.Len(); i++ {
						f := e.Prog.MethodValue(ms.At(i))
						if f != nil && f.String() == key {
							return f
						}
					}
				}
			}
		}
	}
	return nil
}

// Notes returns the assumptions noted while generating VCs for a function.
func Notes(fs *fnState) map[string]bool {
	if fs == nil {
		return nil
	}
	return fs.notes
}

// AssumedContracts lists the contracts that are assumed rather than verified.
func (e *Engine) AssumedContracts() []string {
	var out []string
	for k, fc := range e.Contracts {
		if fc.Assumed {
			out = append(out, k)
		}
	}
	for k := range e.Iface {
		out = append(out, "interface "+k)
	}
	sort.Strings(out)
	return out
}

// ElemMapKey / FieldMapKey / SortOf expose the heap naming scheme to the spec generator.
func ElemMapKey(t types.Type) string                     { return elemMapKey(t) }
func FieldMapKey(root types.Type, names []string) string { return structFieldMapKey(root, names) }
func SortOf(t types.Type) string                         { return sortOf(t) }

// BundleKeys resolves a heap bundle (declared in a contract file) to (cell key, sort) pairs.
func (e *Engine) BundleKeys(name string) [][2]string {
	d := &fnState{e: e, declared: map[string]bool{}, cellSort: map[string]string{}, notes: map[string]bool{}, strLits: map[string]string{}}
	ctx := &specCtx{f: d, binds: map[string]SV{}, env: &env{cells: map[string]SV{}}, old: &env{cells: map[string]SV{}}, callee: true}
	return e.bundle(name, ctx)
}

// TypesPkg returns the go/types package with the given path.
func (e *Engine) TypesPkg(path string) *types.Package { return e.typesPkg(path) }

// functypeKey finds the function type written in a functype header among the signatures of the package's functions.
func (e *Engine) functypeKey(name, pkgPath string) string {
	want := reAlias.ReplaceAllStringFunc(normSig(strings.TrimPrefix(name, "functype:")), func(m string) string {
		if m == "byte" {
			return "uint8"
		}
		return "int32"
	})
	for _, p := range e.SSAPkgs {
		if p == nil || p.Pkg.Path() != pkgPath {
			continue
		}
		for _, m := range p.Members {
			if fn, ok := m.(*ssa.Function); ok {
				tn := typeName(fn.Signature)
				if normSig(stripPkg(tn, p.Pkg.Name())) == want {
					return "functype:" + SigKey(fn.Signature)
				}
			}
		}
	}
	return ""
}

func stripPkg(s, pkg string) string { return strings.ReplaceAll(s, pkg+".", "") }

// normSig removes parameter names and spaces from a printed signature.
func normSig(s string) string {
	s = strings.TrimSpace(s)
	i, j := strings.Index(s, "("), strings.LastIndex(s, ")")
	if i < 0 || j < i {
		return strings.ReplaceAll(s, " ", "")
	}
	var ps []string
	for _, part := range strings.Split(s[i+1:j], ",") {
		fs := strings.Fields(strings.TrimSpace(part))
		if len(fs) == 0 {
			continue
		}
		ps = append(ps, fs[len(fs)-1])
	}
	return strings.ReplaceAll(s[:i]+"("+strings.Join(ps, ",")+")"+s[j+1:], " ", "")
}

// SigKey prints a signature without parameter names (the key of function-type contracts).
func SigKey(sig *types.Signature) string {
	var ps, rs []string
	for i := 0; i < sig.Params().Len(); i++ {
		ps = append(ps, typeName(sig.Params().At(i).Type()))
	}
	for i := 0; i < sig.Results().Len(); i++ {
		rs = append(rs, typeName(sig.Results().At(i).Type()))
	}
	return "func(" + strings.Join(ps, ",") + ")(" + strings.Join(rs, ",") + ")"
}
