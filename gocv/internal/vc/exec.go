package vc

import (
	"fmt"
	"go/token"
	"go/types"
	"regexp"
	"sort"
	"strings"

	"gocv/internal/smt"
	"gocv/internal/spec"

	"golang.org/x/tools/go/ssa"
)

// Obligation is one proof obligation (one SMT query).
type Obligation struct {
	ID       string // <func>/<class>/<site> — stable, line-number free
	Func     string
	Class    string // SAFE:index … PRE POST INV-ENTRY INV-PRES FRAME STRUCT UNSUPPORTED LEMMA COVER
	Label    string // clause label if any
	Site     string // normalised source text of the statement or clause
	Pos      token.Position
	Goal     string
	Reach    string
	prefix   int
	Query    string
	Result   smt.Result
	Expected string // "unsat" for proof goals, "sat" for cover / must-fail probes
	Note     string
	PkgPath  string // for lemmas: the package whose spec functions are in scope
	Batched  int    // >0: discharged as one of this many frame obligations of the same program point
	fs       *fnState
	ni       *niInfo
}

// detFact: an external call is deterministic in its arguments (used by NI checks).
type detFact struct {
	at   int
	args []string
	res  []string
	cond string // extra premise (holds in both runs) for callee NI clauses
}

// niInfo describes a non-interference obligation: the function is run twice
// (second copy obtained by renaming every run-local symbol) on entry states
// that differ only in the designated memory.
type niInfo struct {
	bases    map[string]bool // base cell names (X!0) that differ between the runs
	relation []string        // assertions relating the two entry states
	goalB    func(ren func(string) string) string
}

// Held reports whether the obligation came out as expected.
func (o *Obligation) Held() bool {
	if o.Expected == "sat" {
		// cover / must-fail probes: anything but a refutation (quantified axioms make the solvers answer unknown)
		return o.Result.Status != "unsat" && o.Result.Status != "error"
	}
	return o.Result.Status == o.Expected
}

type env struct {
	cells map[string]SV
}

func (e *env) clone() *env {
	n := &env{cells: make(map[string]SV, len(e.cells))}
	for k, v := range e.cells {
		n.cells[k] = v
	}
	return n
}

type loopInfo struct {
	header   *ssa.BasicBlock
	ordinal  int
	blocks   map[*ssa.BasicBlock]bool
	modified map[string]bool
	backs    []*ssa.BasicBlock
	entryEnv *env   // env in which the loop was entered (for atentry())
	headEnv  *env   // env right after havoc (for decreases)
	decrAt   string // value of the decreases measure at the head
}

type fnState struct {
	assertFired map[int]bool // site assertions whose anchor statement was reached
	e           *Engine
	fn          *ssa.Function
	fc          *spec.FuncContract
	log         []string
	declared    map[string]bool
	nfresh      int
	vals        map[ssa.Value]SV
	exitEnv     map[*ssa.BasicBlock]*env
	exitRch     map[*ssa.BasicBlock]string
	cur         *env
	reach       string
	blk         *ssa.BasicBlock
	obls        []*Obligation
	entry       *env
	loops       map[*ssa.BasicBlock]*loopInfo
	loopList    []*loopInfo
	cellSort    map[string]string
	direct      map[*ssa.Alloc]bool
	sites       map[string]int
	curPos      token.Pos
	discover    bool
	params      map[string]SV
	results     []string // result names
	retSeen     int
	inlining    int // depth of inlined calls
	inlineRet   *SV // result captured from an inlined callee return
	strLits     map[string]string
	invLookup   *loopInfo         // loop whose invariant is being translated (scopes local names)
	sitePos     token.Pos         // source position of the site clause being translated
	quantElts   []string          // element-location terms met in the quantifier body being translated
	quant       int               // >0 while translating the body of a quantifier
	sentinels   []string          // constants of leaf error sentinels seen so far
	defs        map[string]string // terms behind the names introduced by define
	notes       map[string]bool
	rangeIt     map[ssa.Value]string // Range instr -> cell key of its position
	frameK      map[string]string    // heap map key -> skolem location for the frame check
	detFacts    []detFact
	localSyms   map[string]bool // symbols that are private to one run (renamed in the second copy of an NI check)
	failed      error
}

func (f *fnState) key() string { return f.fn.String() }

func (f *fnState) emit(line string) {
	if f.quant > 0 && strings.HasPrefix(line, "(assert") && reBoundVar.MatchString(line) {
		// inside a quantifier body terms mention bound variables: side facts about such terms (typing,
		// heap closure) cannot be stated at top level and are dropped, which only loses knowledge
		return
	}
	f.log = append(f.log, line)
}

func (f *fnState) declare(name, sort string) {
	if f.declared[name] {
		return
	}
	f.declared[name] = true
	f.emit(fmt.Sprintf("(declare-const %s %s)", sym(name), sort))
}

var sharedPrefixes = []string{"p_", "fv_", "newref", "nextref", "acap", "fk_", "strlit", "implements", "fconst"}

func (f *fnState) fresh(prefix, sort string) string {
	f.nfresh++
	n := fmt.Sprintf("%s!%d", prefix, f.nfresh)
	f.declare(n, sort)
	shared := false
	for _, p := range sharedPrefixes {
		if strings.HasPrefix(prefix, p) {
			shared = true
		}
	}
	if !shared {
		if f.localSyms == nil {
			f.localSyms = map[string]bool{}
		}
		f.localSyms[n] = true
	}
	return sym(n)
}

// define introduces a constant equal to term (keeps queries linear in size).
func (f *fnState) define(prefix, sort, term string) string {
	if len(term) < 48 || f.quant > 0 {
		return term
	}
	n := f.fresh(prefix, sort)
	f.emit(fmt.Sprintf("(assert (= %s %s))", n, term))
	if f.defs == nil {
		f.defs = map[string]string{}
	}
	f.defs[n] = term
	return n
}

// bound variables of contract quantifiers are named q_<name>
var reBoundVar = regexp.MustCompile(`[\s(]q_[A-Za-z0-9_]+[\s)]`)

var reMkSl = regexp.MustCompile(`^\(mk-sl .* (?:(\d+)|\(- (\d+) 0\)) (?:\d+|\(- \d+ 0\))\)$`)

// constLen returns the literal length of a slice value built by a constant-size slice expression ("" if unknown).
func (f *fnState) constLen(sv SV) string {
	t := sv.T
	if d, ok := f.defs[t]; ok {
		t = d
	}
	if m := reMkSl.FindStringSubmatch(t); m != nil {
		return m[1] + m[2]
	}
	return ""
}

// fact records an unconditional truth (typing facts, definitions).
func (f *fnState) fact(c string) {
	if c == "true" || c == "" {
		return
	}
	f.emit("(assert " + c + ")")
}

// assume records a fact that holds whenever control is at the current point.
func (f *fnState) assume(c string) {
	if c == "true" || c == "" {
		return
	}
	if f.reach == "true" {
		f.emit("(assert " + c + ")")
		return
	}
	f.emit(fmt.Sprintf("(assert (=> %s %s))", f.reach, c))
}

func (f *fnState) note(s string) { f.notes[s] = true }

// site returns the normalised source text for the current instruction.
func (f *fnState) site() string {
	s := f.e.srcLine(f.curPos)
	if s == "" {
		s = "?"
	}
	return normSite(s)
}

func normSite(s string) string {
	s = strings.TrimSpace(s)
	if i := strings.Index(s, "//"); i > 0 {
		s = strings.TrimSpace(s[:i])
	}
	s = strings.Join(strings.Fields(s), " ")
	if len(s) > 90 {
		s = s[:90]
	}
	return s
}

// oblige adds a proof obligation at the current point and then assumes it.
func (f *fnState) oblige(class, label, site, goal string) *Obligation {
	if goal == "true" {
		return nil
	}
	base := f.key() + "/" + class
	if label != "" {
		base += "[" + label + "]"
	}
	base += "/" + site
	f.sites[base]++
	id := base
	if n := f.sites[base]; n > 1 {
		id = fmt.Sprintf("%s#%d", base, n)
	}
	o := &Obligation{ID: id, Func: f.key(), Class: class, Label: label, Site: site, Goal: goal,
		Reach: f.reach, prefix: len(f.log), Expected: "unsat", fs: f}
	if f.curPos.IsValid() && f.e.Fset != nil {
		o.Pos = f.e.Fset.Position(f.curPos)
	}
	f.obls = append(f.obls, o)
	f.assume(goal)
	return o
}

// obligeNote records an obligation that is known not to hold (goal "false") without assuming it afterwards.
func (f *fnState) obligeNote(class, label, site, goal, note string) {
	n := len(f.log)
	o := f.oblige(class, label, site, goal)
	if o != nil {
		o.Note = note
		f.log = f.log[:n] // drop the assumption of the goal
	}
}

func (f *fnState) unsupported(what string) {
	f.oblige("UNSUPPORTED", "", what+" @ "+f.site(), "false")
}

// ---- cells ---------------------------------------------------------------

func (f *fnState) cellBase(key, sort string) SV {
	if s, ok := f.cellSort[key]; ok && s != sort && sort != "" {
		panic(fmt.Sprintf("cell %s: sort %s vs %s", key, s, sort))
	}
	if sort == "" {
		sort = f.cellSort[key]
	}
	f.cellSort[key] = sort
	n := key + "!0"
	if !f.declared[n] {
		f.declare(n, sort)
		// the entry heap is closed: every reference stored in it designates memory allocated before entry
		var refOf string
		switch sort {
		case "(Array Loc Slice)":
			refOf = "(l-ref (s-loc (select %s hk)))"
		case "(Array Loc Loc)":
			refOf = "(l-ref (select %s hk))"
		case "(Array Loc Iface)":
			refOf = "(l-ref (i-ptr (select %s hk)))"
		}
		if refOf != "" && key != "G$nextref" {
			f.declare("G$nextref!0", sInt)
			r := fmt.Sprintf(refOf, sym(n))
			f.emit(fmt.Sprintf("(assert (forall ((hk Loc)) (! (< %s |G$nextref!0|) :pattern ((select %s hk)))))", r, sym(n)))
		}
	}
	return SV{Sort: sort, T: sym(n)}
}

// get reads a global cell (heap map / ghost) from env, falling back to the entry version.
func (f *fnState) get(en *env, key, sort string) SV {
	if v, ok := en.cells[key]; ok {
		return v
	}
	return f.cellBase(key, sort)
}

func (f *fnState) set(key string, v SV) {
	f.cur.cells[key] = v
	if f.cellSort[key] == "" {
		f.cellSort[key] = v.Sort
	}
	f.markModified(key)
}

func (f *fnState) markModified(key string) {
	for _, l := range f.loopList {
		if l.blocks[f.blk] {
			l.modified[key] = true
		}
	}
}

func localKey(a *ssa.Alloc) string {
	fn := ""
	if a.Parent() != nil {
		fn = a.Parent().Name()
	}
	return "L:" + fn + "." + a.Name() + ":" + a.Comment
}

// ---- block structure -------------------------------------------------------

func (f *fnState) findLoops() {
	fn := f.fn
	f.loops = map[*ssa.BasicBlock]*loopInfo{}
	for _, b := range fn.Blocks {
		for _, s := range b.Succs {
			if s.Dominates(b) { // back edge b -> s
				l := f.loops[s]
				if l == nil {
					l = &loopInfo{header: s, blocks: map[*ssa.BasicBlock]bool{s: true}, modified: map[string]bool{}}
					f.loops[s] = l
				}
				l.backs = append(l.backs, b)
				// natural loop: everything that reaches b without passing s
				stack := []*ssa.BasicBlock{b}
				for len(stack) > 0 {
					x := stack[len(stack)-1]
					stack = stack[:len(stack)-1]
					if l.blocks[x] {
						continue
					}
					l.blocks[x] = true
					stack = append(stack, x.Preds...)
				}
			}
		}
	}
	var hs []*ssa.BasicBlock
	for h := range f.loops {
		hs = append(hs, h)
	}
	sort.Slice(hs, func(i, j int) bool { return hs[i].Index < hs[j].Index })
	for i, h := range hs {
		f.loops[h].ordinal = i + 1
		f.loopList = append(f.loopList, f.loops[h])
	}
}

func (f *fnState) rpo() []*ssa.BasicBlock {
	var order []*ssa.BasicBlock
	seen := map[*ssa.BasicBlock]bool{}
	var dfs func(b *ssa.BasicBlock)
	dfs = func(b *ssa.BasicBlock) {
		seen[b] = true
		for i := len(b.Succs) - 1; i >= 0; i-- {
			s := b.Succs[i]
			if s.Dominates(b) {
				continue // back edge
			}
			if !seen[s] {
				dfs(s)
			}
		}
		order = append(order, b)
	}
	dfs(f.fn.Blocks[0])
	for i, j := 0, len(order)-1; i < j; i, j = i+1, j-1 {
		order[i], order[j] = order[j], order[i]
	}
	return order
}

// edgeCond is the branch condition of edge p -> s.
func (f *fnState) edgeCond(p, s *ssa.BasicBlock) string {
	if len(p.Instrs) == 0 {
		return "true"
	}
	if iff, ok := p.Instrs[len(p.Instrs)-1].(*ssa.If); ok {
		c := f.val(iff.Cond).T
		if p.Succs[0] == s && p.Succs[1] == s {
			return "true"
		}
		if p.Succs[0] == s {
			return c
		}
		return not(c)
	}
	return "true"
}

// mergeInto computes the env and reach of block b from its forward predecessors.
func (f *fnState) mergeInto(b *ssa.BasicBlock) bool {
	type in struct {
		p    *ssa.BasicBlock
		edge string
		en   *env
	}
	var ins []in
	for _, p := range b.Preds {
		if b.Dominates(p) && f.loops[b] != nil {
			continue // back edge
		}
		en, ok := f.exitEnv[p]
		if !ok {
			continue // unreachable predecessor
		}
		ins = append(ins, in{p, and(f.exitRch[p], f.edgeCond(p, b)), en})
	}
	if len(ins) == 0 {
		return false
	}
	if len(ins) == 1 {
		f.cur = ins[0].en.clone()
		r := ins[0].edge
		if len(r) > 40 {
			n := f.fresh("reach_b"+fmt.Sprint(b.Index), sBool)
			f.emit(fmt.Sprintf("(assert (= %s %s))", n, r))
			r = n
		}
		f.reach = r
		f.phis(b, []*ssa.BasicBlock{ins[0].p}, nil)
		return true
	}
	// union of keys
	keys := map[string]bool{}
	for _, i := range ins {
		for k := range i.en.cells {
			keys[k] = true
		}
	}
	merged := &env{cells: map[string]SV{}}
	eqs := make([][]string, len(ins))
	for _, k := range sortedKeys(keys) {
		vs := make([]SV, len(ins))
		same := true
		for j, i := range ins {
			v, ok := i.en.cells[k]
			if !ok {
				if strings.HasPrefix(k, "L:") || strings.HasPrefix(k, "R:") {
					// local not yet allocated on this path: value irrelevant; take any other
					for _, i2 := range ins {
						if v2, ok2 := i2.en.cells[k]; ok2 {
							v = v2
							break
						}
					}
				} else {
					v = f.cellBase(k, "")
				}
			}
			vs[j] = v
			if j > 0 && !svEqual(vs[0], v) {
				same = false
			}
		}
		if same {
			merged.cells[k] = vs[0]
			continue
		}
		merged.cells[k] = f.mergeSV(k, vs, eqs)
	}
	var disj []string
	for j, i := range ins {
		disj = append(disj, and(append([]string{i.edge}, eqs[j]...)...))
	}
	var preds []*ssa.BasicBlock
	for _, i := range ins {
		preds = append(preds, i.p)
	}
	f.cur = merged
	// phis contribute equalities per edge as well
	peqs := make([][]string, len(ins))
	f.phis(b, preds, peqs)
	for j := range disj {
		disj[j] = and(append([]string{disj[j]}, peqs[j]...)...)
	}
	n := f.fresh("reach_b"+fmt.Sprint(b.Index), sBool)
	f.emit(fmt.Sprintf("(assert (= %s %s))", n, or(disj...)))
	f.reach = n
	return true
}

func svEqual(a, b SV) bool {
	if len(a.Agg) != len(b.Agg) {
		return false
	}
	if len(a.Agg) > 0 {
		for i := range a.Agg {
			if !svEqual(a.Agg[i], b.Agg[i]) {
				return false
			}
		}
		return true
	}
	if (a.LV == nil) != (b.LV == nil) {
		return false
	}
	if a.T == "" && a.LV != nil && b.LV != nil {
		return a.LV.Cell == b.LV.Cell && a.LV.Loc == b.LV.Loc && fmt.Sprint(a.LV.Path) == fmt.Sprint(b.LV.Path)
	}
	return a.T == b.T
}

func (f *fnState) mergeSV(k string, vs []SV, eqs [][]string) SV {
	v0 := vs[0]
	if len(v0.Agg) > 0 {
		out := SV{Typ: v0.Typ}
		for i := range v0.Agg {
			sub := make([]SV, len(vs))
			for j := range vs {
				sub[j] = vs[j].Agg[i]
			}
			same := true
			for j := 1; j < len(sub); j++ {
				if !svEqual(sub[0], sub[j]) {
					same = false
				}
			}
			if same {
				out.Agg = append(out.Agg, sub[0])
			} else {
				out.Agg = append(out.Agg, f.mergeSV(k, sub, eqs))
			}
		}
		return out
	}
	sort := v0.Sort
	if sort == "" {
		sort = f.cellSort[k]
	}
	if sort == "" {
		// interior pointers cannot be merged
		f.unsupported("merge of interior pointers")
		return v0
	}
	name := strings.NewReplacer("L:", "", ":", "_", "$", "_").Replace(k)
	m := f.fresh("m_"+name, sort)
	for j := range vs {
		t := vs[j].T
		if t == "" {
			t = f.locTerm(vs[j])
		}
		eqs[j] = append(eqs[j], eq(m, t))
	}
	out := SV{Typ: v0.Typ, Sort: sort, T: m}
	if sort == sLoc && v0.Typ != nil {
		if pt, ok := v0.Typ.Underlying().(*types.Pointer); ok {
			out.LV = &LV{Loc: m, RootT: pt.Elem()}
		}
	}
	return out
}

// phis evaluates the phi nodes of b; with eqs != nil one fresh constant per phi
// is tied to the incoming values per edge.
func (f *fnState) phis(b *ssa.BasicBlock, preds []*ssa.BasicBlock, eqs [][]string) {
	for _, ins := range b.Instrs {
		phi, ok := ins.(*ssa.Phi)
		if !ok {
			break
		}
		if eqs == nil {
			for i, p := range b.Preds {
				if p == preds[0] {
					f.vals[phi] = f.val(phi.Edges[i])
				}
			}
			continue
		}
		s := sortOf(phi.Type())
		m := f.fresh("phi_"+phi.Name(), s)
		for j, p := range preds {
			for i, bp := range b.Preds {
				if bp == p {
					eqs[j] = append(eqs[j], eq(m, f.val(phi.Edges[i]).T))
				}
			}
		}
		f.vals[phi] = f.mk(phi.Type(), m)
	}
}

// mk builds an SV of Go type t from a term.
func (f *fnState) mk(t types.Type, term string) SV {
	sv := SV{Typ: t, Sort: sortOf(t), T: term}
	if pt, ok := t.Underlying().(*types.Pointer); ok {
		sv.LV = &LV{Loc: term, RootT: pt.Elem()}
	}
	return sv
}

// freshOf creates an unconstrained value of Go type t (with typing facts).
func (f *fnState) freshOf(prefix string, t types.Type) SV {
	switch u := t.Underlying().(type) {
	case *types.Struct:
		sv := SV{Typ: t}
		for i := 0; i < u.NumFields(); i++ {
			sv.Agg = append(sv.Agg, f.freshOf(prefix+"_"+u.Field(i).Name(), u.Field(i).Type()))
		}
		return sv
	case *types.Tuple:
		sv := SV{Typ: t}
		for i := 0; i < u.Len(); i++ {
			sv.Agg = append(sv.Agg, f.freshOf(fmt.Sprintf("%s_%d", prefix, i), u.At(i).Type()))
		}
		return sv
	}
	s := sortOf(t)
	if s == "" {
		f.unsupported("value of type " + typeName(t))
		return SV{Typ: t, Sort: sInt, T: "0"}
	}
	n := f.fresh(prefix, s)
	sv := f.mk(t, n)
	f.typeFacts(sv)
	return sv
}

// typeFacts asserts the facts every well-typed value of sv's type satisfies.
func (f *fnState) typeFacts(sv SV) {
	if len(sv.Agg) > 0 {
		for _, a := range sv.Agg {
			f.typeFacts(a)
		}
		return
	}
	if sv.Typ == nil || sv.T == "" {
		return
	}
	key := "tf:" + sv.T + ":" + sv.Sort
	if f.declared[key] {
		return
	}
	f.declared[key] = true
	if lo, hi, ok := intRange(sv.Typ); ok {
		f.fact(fmt.Sprintf("(and (<= %s %s) (<= %s %s))", lo, sv.T, sv.T, hi))
		return
	}
	switch sv.Sort {
	case sSlice:
		f.fact(fmt.Sprintf("(wf-slice %s)", sv.T))
	case sLoc:
		f.fact(fmt.Sprintf("(wf-ptr %s)", sv.T))
	case sIface:
		f.fact(fmt.Sprintf("(wf-iface %s)", sv.T))
	}
	if _, ok := sv.Typ.Underlying().(*types.Map); ok {
		f.fact(fmt.Sprintf("(>= %s 0)", sv.T))
	}
}

// val returns the symbolic value of an SSA value.
func (f *fnState) val(v ssa.Value) SV {
	if sv, ok := f.vals[v]; ok {
		return sv
	}
	switch c := v.(type) {
	case *ssa.Const:
		return f.constant(c)
	case *ssa.Global:
		return f.global(c)
	case *ssa.Function:
		return SV{Typ: c.Type(), Sort: sInt, T: fmt.Sprint(1000000 + f.e.typeTag(types.NewNamed(types.NewTypeName(0, nil, "func:"+c.String(), nil), types.Typ[types.Int], nil)))}
	case *ssa.Builtin:
		return SV{Typ: c.Type(), Sort: sInt, T: "0"}
	case *ssa.Parameter, *ssa.FreeVar:
		sv := f.freshOf("p_"+c.Name(), c.Type())
		f.vals[v] = sv
		return sv
	}
	f.unsupported(fmt.Sprintf("use of undefined value %s (%T)", v.Name(), v))
	sv := f.freshOf("undef_"+v.Name(), v.Type())
	f.vals[v] = sv
	return sv
}

// ---- function driver -------------------------------------------------------

// VerifyFunc generates all obligations for fn against its contract (nil = none).
func (e *Engine) VerifyFunc(fn *ssa.Function) ([]*Obligation, *fnState, error) {
	fc := e.Contracts[fn.String()]
	if len(fn.Blocks) == 0 {
		return nil, nil, fmt.Errorf("%s: no body", fn)
	}
	// pass 1 discovers which cells each loop modifies
	d := e.newState(fn, fc)
	d.discover = true
	d.run()
	f := e.newState(fn, fc)
	for h, l := range d.loops {
		for k := range l.modified {
			f.loops[h].modified[k] = true
		}
	}
	for k, s := range d.cellSort {
		f.cellSort[k] = s
	}
	f.run()
	if fc != nil && f.failed == nil {
		// an assertion whose anchor statement is no longer in the function would silently disappear: report it as
		// an obligation that cannot be generated (the contract no longer matches the code)
		for i, a := range fc.Asserts {
			if f.assertFired[i] || a.Every || a.Assume {
				continue
			}
			site := fmt.Sprintf("%s %q: %s", a.Where, a.Needle, normSite(a.Clause.Text))
			base := f.key() + "/ASSERT"
			if a.Clause.Label != "" {
				base += "[" + a.Clause.Label + "]"
			}
			f.obls = append(f.obls, &Obligation{ID: base + "/" + site, Func: f.key(), Class: "ASSERT", Label: a.Clause.Label, Site: site, Goal: "false",
				Reach: "true", prefix: 0, Expected: "unsat", fs: f,
				Note: fmt.Sprintf("no statement containing %q is reached in %s any more: the assertion anchored there cannot be generated", a.Needle, fn.Name())})
		}
	}
	return f.obls, f, f.failed
}

func (e *Engine) newState(fn *ssa.Function, fc *spec.FuncContract) *fnState {
	f := &fnState{e: e, fn: fn, fc: fc, declared: map[string]bool{}, vals: map[ssa.Value]SV{},
		exitEnv: map[*ssa.BasicBlock]*env{}, exitRch: map[*ssa.BasicBlock]string{},
		cellSort: map[string]string{}, direct: map[*ssa.Alloc]bool{}, sites: map[string]int{},
		params: map[string]SV{}, strLits: map[string]string{}, notes: map[string]bool{},
		rangeIt: map[ssa.Value]string{}, frameK: map[string]string{}}
	f.findLoops()
	return f
}

func (f *fnState) run() {
	defer func() {
		if r := recover(); r != nil {
			if ue, ok := r.(engineError); ok {
				f.failed = fmt.Errorf("%s: %s", f.fn, string(ue))
				return
			}
			panic(r)
		}
	}()
	fn := f.fn
	f.classifyAllocs()
	f.cur = &env{cells: map[string]SV{}}
	f.reach = "true"
	f.blk = fn.Blocks[0]
	f.curPos = fn.Pos()
	// parameters
	for _, p := range fn.Params {
		sv := f.freshOf("p_"+p.Name(), p.Type())
		f.vals[p] = sv
		f.params[p.Name()] = sv
		f.paramFacts(p, sv)
	}
	for _, fv := range fn.FreeVars {
		sv := f.freshOf("fv_"+fv.Name(), fv.Type())
		f.vals[fv] = sv
		f.params[fv.Name()] = sv
		if sv.Sort == sLoc {
			// captured variables are cells of the enclosing function: never nil
			f.fact(fmt.Sprintf("(not (= %s %s))", sv.T, nilLoc))
		}
	}
	res := fn.Signature.Results()
	for i := 0; i < res.Len(); i++ {
		n := res.At(i).Name()
		if n == "" || n == "_" {
			if res.Len() == 1 {
				n = "result"
			} else {
				n = fmt.Sprintf("result%d", i)
			}
		}
		f.results = append(f.results, n)
	}
	// ghost allocation watermark: everything reachable at entry is older
	nr := f.get(f.cur, "G$nextref", sInt)
	f.fact(fmt.Sprintf("(> %s 1)", nr.T))
	f.entry = f.cur.clone()
	if f.fc != nil {
		for _, c := range f.fc.Requires {
			t := f.specBool(c.E, f.specCtx(nil))
			f.assume(t)
		}
	}
	f.entry = f.cur.clone()

	for _, b := range f.rpo() {
		f.blk = b
		if b.Index == 0 {
			// entry
		} else if !f.mergeInto(b) {
			continue
		}
		if l := f.loops[b]; l != nil {
			f.loopHead(l)
		}
		f.block(b)
	}
}

type engineError string

// tryBool translates a contract clause; a clause that cannot be translated against the current code
// (it names a local variable that no longer exists, say) yields ok == false and the reason.
func (f *fnState) tryBool(e spec.Expr, ctx *specCtx) (t string, ok bool, why string) {
	defer func() {
		if r := recover(); r != nil {
			if ue, isUE := r.(engineError); isUE {
				t, ok, why = "false", false, string(ue)
				return
			}
			panic(r)
		}
	}()
	return f.specBool(e, ctx), true, ""
}

func (f *fnState) fail(format string, args ...interface{}) {
	panic(engineError(fmt.Sprintf(format, args...)))
}

// paramFacts: pointers and slices passed in are older than anything allocated here;
// pointer parameters are assumed non-nil unless the contract mentions nil for them.
func (f *fnState) paramFacts(p *ssa.Parameter, sv SV) {
	nr := f.get(f.cur, "G$nextref", sInt).T
	var walk func(sv SV)
	walk = func(sv SV) {
		for _, a := range sv.Agg {
			walk(a)
		}
		switch sv.Sort {
		case sLoc:
			f.fact(fmt.Sprintf("(< (l-ref %s) %s)", sv.T, nr))
		case sSlice:
			f.fact(fmt.Sprintf("(< (l-ref (s-loc %s)) %s)", sv.T, nr))
		case sIface:
			f.fact(fmt.Sprintf("(< (l-ref (i-ptr %s)) %s)", sv.T, nr))
		}
	}
	walk(sv)
	if _, ok := p.Type().Underlying().(*types.Pointer); ok && sv.Sort == sLoc {
		if !f.contractMentionsNil(p.Name()) {
			f.fact(fmt.Sprintf("(not (= %s %s))", sv.T, nilLoc))
			f.note("assumption: pointer parameters are non-nil unless the contract says otherwise")
		}
	}
}

func (f *fnState) contractMentionsNil(name string) bool {
	if f.fc == nil {
		return false
	}
	for _, c := range f.fc.Requires {
		if strings.Contains(c.Text, name+" == nil") || strings.Contains(c.Text, name+" != nil") {
			return true
		}
	}
	return false
}

func (f *fnState) classifyAllocs() { f.classifyAllocsOf(f.fn) }

func (f *fnState) classifyAllocsOf(fn *ssa.Function) {
	for _, b := range fn.Blocks {
		for _, ins := range b.Instrs {
			a, ok := ins.(*ssa.Alloc)
			if !ok {
				continue
			}
			if a.Heap {
				continue
			}
			ok = true
			var chk func(v ssa.Value, depth int)
			chk = func(v ssa.Value, depth int) {
				for _, r := range *v.Referrers() {
					switch r := r.(type) {
					case *ssa.Store:
						if r.Val == v {
							ok = false // address stored somewhere
						}
					case *ssa.UnOp, *ssa.DebugRef:
					case *ssa.FieldAddr:
						chk(r, depth+1)
					case *ssa.IndexAddr:
						if r.X == v {
							chk(r, depth+1)
						}
					default:
						ok = false
					}
				}
			}
			chk(a, 0)
			if ok {
				f.direct[a] = true
			}
		}
	}
}

// loopHead: check invariants on entry, havoc the loop targets, assume invariants.
func (f *fnState) loopHead(l *loopInfo) {
	h := l.header
	f.curPos = firstPos(h)
	invs := f.invariantsFor(l)
	l.entryEnv = f.cur.clone()
	ctx := f.specCtx(nil)
	ctx.locals = true
	ctx.invLoop = l
	for _, c := range invs {
		t, ok, why := f.tryBool(c.E, ctx)
		if !ok {
			f.obligeNote("INV-ENTRY", c.Label, fmt.Sprintf("loop %d: %s", l.ordinal, normSite(c.Text)), "false", "the clause cannot be evaluated on the current code: "+why)
			continue
		}
		f.oblige("INV-ENTRY", c.Label, fmt.Sprintf("loop %d: %s", l.ordinal, normSite(c.Text)), t)
	}
	f.structInvariants(l, "INV-ENTRY")
	preNextref := f.get(f.cur, "G$nextref", sInt).T
	// havoc (the discovery pass havocs everything and records what the body writes)
	hav := l.modified
	if f.discover {
		hav = map[string]bool{}
		for k := range f.cur.cells {
			hav[k] = true
		}
		for k := range f.cellSort {
			hav[k] = true
		}
	}
	for _, k := range sortedKeys(hav) {
		old, had := f.cur.cells[k]
		if strings.HasPrefix(k, "L:") || strings.HasPrefix(k, "R:") {
			if !had {
				continue
			}
			f.cur.cells[k] = f.havocSV(k, old)
			continue
		}
		s := f.cellSort[k]
		if s == "" {
			continue
		}
		name := strings.NewReplacer("$", "_").Replace(k)
		f.cur.cells[k] = SV{Sort: s, T: f.fresh(name, s)}
	}
	n := f.fresh(fmt.Sprintf("loop%d_iter", l.ordinal), sBool)
	if f.reach != "true" {
		// being in some iteration implies the loop was entered: facts about unmodified state carry over
		f.emit(fmt.Sprintf("(assert (=> %s %s))", n, f.reach))
	}
	f.reach = n
	ctx = f.specCtx(nil)
	ctx.locals = true
	ctx.invLoop = l
	for _, c := range invs {
		if t, ok, _ := f.tryBool(c.E, ctx); ok {
			f.assume(t)
		}
	}
	f.structInvariants(l, "")
	f.frameInvariants(l, "")
	// the allocation watermark only grows
	if l.modified["G$nextref"] {
		// entry version is a lower bound
		f.assume(fmt.Sprintf("(>= %s %s)", f.get(f.cur, "G$nextref", sInt).T, f.get(f.entry, "G$nextref", sInt).T))
		// ... and everything allocated before the loop stays allocated
		f.assume(fmt.Sprintf("(>= %s %s)", f.get(f.cur, "G$nextref", sInt).T, preNextref))
	}
	// the heap stays closed under allocation across iterations
	for _, k := range sortedKeys(hav) {
		if v, ok := f.cur.cells[k]; ok && (strings.HasPrefix(k, "E$") || strings.HasPrefix(k, "H$")) {
			f.closure(v.T, f.cellSort[k], f.get(f.cur, "G$nextref", sInt).T)
		}
	}
	l.headEnv = f.cur.clone()
	if f.fc != nil {
		if d, ok := f.fc.Decreases[l.ordinal]; ok {
			l.decrAt = f.define("decr", sInt, f.specVal(d.E, ctx).T)
		}
	}
}

func firstPos(b *ssa.BasicBlock) token.Pos {
	for _, i := range b.Instrs {
		if i.Pos().IsValid() {
			return i.Pos()
		}
	}
	return token.NoPos
}

func (f *fnState) havocSV(k string, old SV) SV {
	if len(old.Agg) > 0 {
		out := SV{Typ: old.Typ}
		for i, a := range old.Agg {
			out.Agg = append(out.Agg, f.havocSV(fmt.Sprintf("%s_%d", k, i), a))
		}
		return out
	}
	name := strings.NewReplacer("L:", "", "R:", "", ":", "_", "$", "_").Replace(k)
	if old.Typ != nil && sortOf(old.Typ) != "" {
		return f.freshOf("h_"+name, old.Typ)
	}
	s := old.Sort
	if s == "" {
		s = sInt
	}
	return SV{Typ: old.Typ, Sort: s, T: f.fresh("h_"+name, s)}
}

func (f *fnState) invariantsFor(l *loopInfo) []spec.Clause {
	if f.fc == nil {
		return nil
	}
	return f.fc.Invariants[l.ordinal]
}

// structInvariants are invariants that follow from how go/ssa lowers range
// loops (rangeindex starts at -1 and only grows). They are proved, not assumed.
func (f *fnState) structInvariants(l *loopInfo, class string) {
	for _, k := range sortedKeys(l.modified) {
		if !strings.HasSuffix(k, ":rangeindex") && !strings.HasPrefix(k, "R:") {
			continue
		}
		v, ok := f.cur.cells[k]
		if !ok {
			continue
		}
		lo := "(- 1)"
		if strings.HasPrefix(k, "R:") {
			lo = "0"
		}
		g := fmt.Sprintf("(>= %s %s)", v.T, lo)
		if up := f.rangeUpper(l, k); up != "" {
			// completed iterations never exceed the length fixed when the loop was entered
			if strings.HasPrefix(k, "R:") {
				g = fmt.Sprintf("(and %s (<= %s %s))", g, v.T, up)
			} else {
				g = fmt.Sprintf("(and %s (<= (+ %s 1) %s))", g, v.T, up)
			}
		}
		if class == "" {
			f.assume(g)
		} else {
			f.oblige("STRUCT", "", fmt.Sprintf("loop %d: range position >= %s", l.ordinal, lo), g)
		}
	}
}

// rangeUpper returns the length term of the range loop whose position cell is key ("" if unknown).
func (f *fnState) rangeUpper(l *loopInfo, key string) string {
	h := l.header
	if len(h.Instrs) == 0 {
		return ""
	}
	if strings.HasPrefix(key, "R:") {
		return "" // map ranges: the length is read at each Next
	}
	// the header of this loop must be the one that loads this rangeindex cell
	owns := false
	for _, ins := range h.Instrs {
		if u, ok := ins.(*ssa.UnOp); ok {
			if a, ok := u.X.(*ssa.Alloc); ok && localKey(a) == key {
				owns = true
			}
		}
	}
	if !owns {
		return ""
	}
	if iff, ok := h.Instrs[len(h.Instrs)-1].(*ssa.If); ok {
		if b, ok := iff.Cond.(*ssa.BinOp); ok && b.Op == token.LSS {
			if v, ok := f.vals[b.Y]; ok {
				return v.T
			}
			if c, ok := b.Y.(*ssa.Const); ok {
				return f.constant(c).T
			}
		}
	}
	return ""
}

func (f *fnState) block(b *ssa.BasicBlock) {
	for _, ins := range b.Instrs {
		if ins.Pos().IsValid() {
			f.curPos = ins.Pos()
		}
		f.siteAsserts(ins, "before")
		f.instr(ins)
		f.siteAsserts(ins, "after")
	}
	f.exitEnv[b] = f.cur
	f.exitRch[b] = f.reach
	// back edges: invariant preservation
	for _, s := range b.Succs {
		if l := f.loops[s]; l != nil && s.Dominates(b) {
			saveReach, saveEnv := f.reach, f.cur
			f.reach = and(f.reach, f.edgeCond(b, s))
			if len(f.reach) > 40 {
				n := f.fresh("back", sBool)
				f.emit(fmt.Sprintf("(assert (= %s %s))", n, f.reach))
				f.reach = n
			}
			f.cur = f.cur.clone()
			f.curPos = firstPos(s)
			ctx := f.specCtx(nil)
			ctx.locals = true
			ctx.invLoop = l
			for _, c := range f.invariantsFor(l) {
				t, ok, _ := f.tryBool(c.E, ctx)
				if !ok {
					continue // reported once, at the loop entry
				}
				f.oblige("INV-PRES", c.Label, fmt.Sprintf("loop %d: %s", l.ordinal, normSite(c.Text)), t)
			}
			f.structInvariants(l, "INV-PRES")
			f.frameInvariants(l, "INV-PRES")
			if f.fc != nil {
				if d, ok := f.fc.Decreases[l.ordinal]; ok && l.decrAt != "" {
					nv := f.specVal(d.E, ctx).T
					f.oblige("TERM", d.Label, fmt.Sprintf("loop %d: decreases %s", l.ordinal, normSite(d.Text)),
						fmt.Sprintf("(and (>= %s 0) (< %s %s))", l.decrAt, nv, l.decrAt))
				}
			}
			f.reach, f.cur = saveReach, saveEnv
		}
	}
}

// siteAsserts handles `assert after|before "text": e` clauses.
func (f *fnState) siteAsserts(ins ssa.Instruction, where string) {
	if f.fc == nil || len(f.fc.Asserts) == 0 || !ins.Pos().IsValid() {
		return
	}
	line := f.e.srcLine(ins.Pos())
	for i, a := range f.fc.Asserts {
		if a.Where != where || !strings.Contains(line, a.Needle) {
			continue
		}
		// fire once per instruction that is the last (after) / first (before) on its line in this block
		k := fmt.Sprintf("sa:%d:%s:%d", i, where, f.e.Fset.Position(ins.Pos()).Line)
		if where == "before" {
			if f.declared[k] {
				continue
			}
			f.declared[k] = true
		} else {
			if !f.lastOnLine(ins) {
				continue
			}
		}
		if f.assertFired == nil {
			f.assertFired = map[int]bool{}
		}
		f.assertFired[i] = true
		actx := f.specCtx(nil)
		actx.locals = true
		f.sitePos = ins.Pos()
		t, ok, why := f.tryBool(a.Clause.E, actx)
		f.sitePos = token.NoPos
		if !ok {
			if !a.Assume {
				f.obligeNote("ASSERT", a.Clause.Label, fmt.Sprintf("%s %q: %s", where, a.Needle, normSite(a.Clause.Text)), "false", "the clause cannot be evaluated on the current code: "+why)
			}
			continue
		}
		if a.Assume {
			f.note(fmt.Sprintf("assumed fact in %s after %q: %s", f.fn.Name(), a.Needle, a.Clause.Text))
			f.assume(t)
			continue
		}
		f.oblige("ASSERT", a.Clause.Label, fmt.Sprintf("%s %q: %s", where, a.Needle, normSite(a.Clause.Text)), t)
	}
}

func (f *fnState) lastOnLine(ins ssa.Instruction) bool {
	b := ins.Block()
	ln := f.e.Fset.Position(ins.Pos()).Line
	seen := false
	for _, x := range b.Instrs {
		if x == ins {
			seen = true
			continue
		}
		if seen && x.Pos().IsValid() && f.e.Fset.Position(x.Pos()).Line == ln {
			return false
		}
	}
	return true
}
