package vc

import (
	"fmt"
	"go/constant"
	"go/token"
	"go/types"
	"gocv/internal/spec"
	"strings"

	"golang.org/x/tools/go/ssa"
)

var sizes = types.SizesFor("gc", "amd64")

func (f *fnState) constant(c *ssa.Const) SV {
	t := c.Type()
	if c.Value == nil {
		return zeroValue(t)
	}
	switch c.Value.Kind() {
	case constant.Bool:
		if constant.BoolVal(c.Value) {
			return SV{Typ: t, Sort: sBool, T: "true"}
		}
		return SV{Typ: t, Sort: sBool, T: "false"}
	case constant.Int:
		s := c.Value.ExactString()
		if strings.HasPrefix(s, "-") {
			s = "(- " + s[1:] + ")"
		}
		return SV{Typ: t, Sort: sInt, T: s}
	case constant.String:
		return SV{Typ: t, Sort: sStr, T: f.strLit(constant.StringVal(c.Value))}
	case constant.Float:
		// floats are bit patterns; constants other than 0 are opaque
		if constant.Sign(c.Value) == 0 {
			return SV{Typ: t, Sort: sInt, T: "0"}
		}
		f.note("float constants are opaque bit patterns")
		return f.freshOf("fconst", t)
	}
	f.unsupported("constant " + c.String())
	return f.freshOf("const", t)
}

func (f *fnState) strLit(s string) string {
	if s == "" {
		return "str.empty"
	}
	if n, ok := f.strLits[s]; ok {
		return n
	}
	n := f.fresh("strlit", sStr)
	f.fact(fmt.Sprintf("(= (slen %s) %d)", n, len(s)))
	for o, m := range f.strLits {
		if len(o) == len(s) {
			f.fact(fmt.Sprintf("(not (= %s %s))", n, m))
		}
	}
	if len(s) <= 8 {
		for i := 0; i < len(s); i++ {
			f.fact(fmt.Sprintf("(= (sbyte %s %d) %d)", n, i, s[i]))
		}
	}
	f.strLits[s] = n
	return n
}

func (f *fnState) global(g *ssa.Global) SV {
	// a global is a pointer to its storage; model storage as a cell keyed by name
	pt := g.Type().(*types.Pointer)
	key := "V:" + g.String()
	sv := SV{Typ: g.Type(), Sort: sLoc, LV: &LV{Loc: "", RootT: pt.Elem()}}
	sv.LV.Loc = "" // marker: global cell
	sv.T = ""
	sv.LV = &LV{RootT: pt.Elem(), Loc: "@global:" + key}
	return sv
}

// locTerm returns the Loc term of a pointer value (whole objects only).
func (f *fnState) locTerm(sv SV) string {
	if sv.T != "" {
		return sv.T
	}
	if sv.LV != nil && sv.LV.Cell == nil && len(sv.LV.Path) == 0 && !strings.HasPrefix(sv.LV.Loc, "@global:") {
		return sv.LV.Loc
	}
	f.unsupported("interior or local pointer used as a value")
	return f.fresh("ptr", sLoc)
}

// ---- memory ----------------------------------------------------------------

func (f *fnState) heapMap(key, valSort string) string {
	return f.get(f.cur, key, "(Array Loc "+valSort+")").T
}

func (f *fnState) heapMapIn(en *env, key, valSort string) string {
	return f.get(en, key, "(Array Loc "+valSort+")").T
}

// load reads through an lvalue in env en.
func (f *fnState) loadIn(en *env, lv *LV) SV {
	if lv.Reinterp != nil {
		return f.unsafeLoad(en, lv)
	}
	if lv.Cell != nil {
		cv, ok := en.cells[localKey(lv.Cell)]
		if !ok {
			cv = zeroValue(lv.RootT)
		}
		return f.navLoad(cv, lv.Path)
	}
	if strings.HasPrefix(lv.Loc, "@global:") {
		return f.globalLoad(en, lv)
	}
	return f.heapAccess3(en, lv, nil)
}

func (f *fnState) load(lv *LV) SV { return f.loadIn(f.cur, lv) }

func (f *fnState) globalLoad(en *env, lv *LV) SV {
	key := strings.TrimPrefix(lv.Loc, "@global:")
	t := lv.RootT
	if len(lv.Path) > 0 {
		f.unsupported("path into global " + key)
		return f.freshOf("g", t)
	}
	s := sortOf(t)
	if s == "" {
		f.unsupported("aggregate global " + key)
		return f.freshOf("g", t)
	}
	// package-level error variables are non-nil and never reassigned: one constant per variable
	if s == sIface && types.Identical(t, types.Universe.Lookup("error").Type()) {
		name := "gv$" + strings.TrimPrefix(key, "V:")
		first := !f.declared[name]
		f.declare(name, sIface)
		c := sym(name)
		if first {
			f.fact(fmt.Sprintf("(not (= %s %s))", c, nilIface))
			f.note("assumption: package-level error variables are non-nil and never reassigned")
			if f.entry != nil {
				// initialised before the function runs: not one of the objects it allocates
				f.fact(fmt.Sprintf("(< (l-ref (i-ptr %s)) %s)", c, f.get(f.entry, "G$nextref", sInt).T))
			}
			if leafSentinels[strings.TrimPrefix(key, "V:")] {
				f.note("assumption: io.EOF, io.ErrUnexpectedEOF and the other errors.New sentinels of package io are distinct and wrap nothing")
				f.fact(fmt.Sprintf("(forall ((t Iface)) (! (= (errIs %s t) (= %s t)) :pattern ((errIs %s t))))", c, c, c))
				for _, o := range f.sentinels {
					f.fact(fmt.Sprintf("(not (= %s %s))", c, o))
				}
				f.sentinels = append(f.sentinels, c)
			}
		}
		sv := f.mk(t, c)
		f.typeFacts(sv)
		return sv
	}
	v := f.get(en, key, s)
	sv := f.mk(t, v.T)
	f.typeFacts(sv)
	return sv
}

// error variables of the standard library created by errors.New
var leafSentinels = map[string]bool{"io.EOF": true, "io.ErrUnexpectedEOF": true, "io.ErrShortWrite": true, "io.ErrShortBuffer": true, "io.ErrNoProgress": true, "io.ErrClosedPipe": true}

func (f *fnState) navLoad(cv SV, path []PathElem) SV {
	for _, pe := range path {
		if pe.Index != "" {
			at, ok := cv.Typ.Underlying().(*types.Array)
			if !ok {
				f.unsupported("index into non-array local")
				return cv
			}
			cv = f.mk(at.Elem(), fmt.Sprintf("(select %s %s)", cv.T, pe.Index))
			f.typeFacts(cv)
			continue
		}
		if pe.Field >= len(cv.Agg) {
			f.unsupported("field of non-struct local")
			return cv
		}
		cv = cv.Agg[pe.Field]
	}
	return cv
}

func (f *fnState) navStore(cv SV, path []PathElem, v SV) SV {
	if len(path) == 0 {
		return v
	}
	pe := path[0]
	if pe.Index != "" {
		at, ok := cv.Typ.Underlying().(*types.Array)
		if !ok {
			f.unsupported("index into non-array local")
			return cv
		}
		if len(path) > 1 {
			f.unsupported("nested path in array local")
			return cv
		}
		_ = at
		out := cv
		out.T = f.define("arr", cv.Sort, fmt.Sprintf("(store %s %s %s)", cv.T, pe.Index, v.T))
		return out
	}
	out := SV{Typ: cv.Typ, Agg: append([]SV(nil), cv.Agg...)}
	out.Agg[pe.Field] = f.navStore(cv.Agg[pe.Field], path[1:], v)
	return out
}

func (f *fnState) store(lv *LV, v SV) {
	if lv.Reinterp != nil {
		f.unsafeStore(lv, v)
		return
	}
	if lv.Cell != nil {
		k := localKey(lv.Cell)
		cv, ok := f.cur.cells[k]
		if !ok {
			cv = zeroValue(lv.RootT)
		}
		f.cur.cells[k] = f.navStore(cv, lv.Path, v)
		f.markModified(k)
		return
	}
	if strings.HasPrefix(lv.Loc, "@global:") {
		key := strings.TrimPrefix(lv.Loc, "@global:")
		if v.Sort == "" {
			f.unsupported("store of aggregate to global")
			return
		}
		f.set(key, SV{Sort: v.Sort, T: v.T})
		return
	}
	f.heapAccess3(f.cur, lv, &v)
}

// heapAccess3 accesses a heap lvalue, spreading standalone array objects over (ref, idx).
func (f *fnState) heapAccess3(en *env, lv *LV, st *SV) SV {
	if at, ok := lv.RootT.Underlying().(*types.Array); ok && !lv.Interior {
		if len(lv.Path) == 0 {
			n := int(at.Len())
			if n > 64 {
				f.unsupported("whole-array access of large array")
				return f.freshOf("arr", lv.RootT)
			}
			if st != nil {
				for i := 0; i < n; i++ {
					el := f.mk(at.Elem(), fmt.Sprintf("(select %s %d)", st.T, i))
					f.heapAccess2(en, locOff(lv.Loc, fmt.Sprint(i)), at.Elem(), nil, nil, nil, &el)
				}
				return *st
			}
			arr := zeroValue(lv.RootT).T
			for i := 0; i < n; i++ {
				el := f.heapAccess2(en, locOff(lv.Loc, fmt.Sprint(i)), at.Elem(), nil, nil, nil, nil)
				arr = fmt.Sprintf("(store %s %d %s)", arr, i, el.T)
			}
			return f.mk(lv.RootT, f.define("arrv", sortOf(lv.RootT), arr))
		}
		pe := lv.Path[0]
		if pe.Index == "" {
			f.unsupported("field step on array")
			return f.freshOf("x", lv.RootT)
		}
		return f.heapAccess2(en, locOff(lv.Loc, pe.Index), at.Elem(), nil, nil, lv.Path[1:], st)
	}
	return f.heapAccess2(en, lv.Loc, lv.RootT, nil, nil, lv.Path, st)
}

// heapAccess loads (st == nil) or stores through a heap lvalue.
func (f *fnState) heapAccess(en *env, loc string, t types.Type, root types.Type, path []PathElem, st *SV) SV {
	var names []string
	return f.heapAccess2(en, loc, t, root, names, path, st)
}

func (f *fnState) heapAccess2(en *env, loc string, t types.Type, root types.Type, names []string, path []PathElem, st *SV) SV {
	switch u := t.Underlying().(type) {
	case *types.Struct:
		if root == nil {
			root = t
			names = nil
		}
		if len(path) == 0 {
			// whole struct
			out := SV{Typ: t}
			for i := 0; i < u.NumFields(); i++ {
				var sub *SV
				if st != nil {
					x := st.Agg[i]
					sub = &x
				}
				out.Agg = append(out.Agg, f.heapAccess2(en, loc, u.Field(i).Type(), root, append(append([]string(nil), names...), u.Field(i).Name()), nil, sub))
			}
			return out
		}
		pe := path[0]
		if pe.Index != "" {
			f.unsupported("index step on struct")
			return f.freshOf("x", t)
		}
		fld := u.Field(pe.Field)
		return f.heapAccess2(en, loc, fld.Type(), root, append(append([]string(nil), names...), fld.Name()), path[1:], st)
	case *types.Array:
		if root == nil {
			// an array that is an element of a slice / pointee: stored whole in its element map
			key := elemMapKey(t)
			vs := sortOf(t)
			if vs == "" {
				f.unsupported("array of aggregates")
				return f.freshOf("x", t)
			}
			m := f.heapMapIn(en, key, vs)
			if len(path) == 0 {
				if st != nil {
					f.set(key, SV{Sort: "(Array Loc " + vs + ")", T: f.define(mapName(key), "(Array Loc "+vs+")", fmt.Sprintf("(store %s %s %s)", m, loc, st.T))})
					return *st
				}
				return f.mk(t, fmt.Sprintf("(select %s %s)", m, loc))
			}
			pe := path[0]
			if pe.Index == "" || len(path) > 1 {
				f.unsupported("path below array element")
				return f.freshOf("x", t)
			}
			if st != nil {
				nv := fmt.Sprintf("(store (select %s %s) %s %s)", m, loc, pe.Index, st.T)
				f.set(key, SV{Sort: "(Array Loc " + vs + ")", T: f.define(mapName(key), "(Array Loc "+vs+")", fmt.Sprintf("(store %s %s %s)", m, loc, nv))})
				return *st
			}
			sv := f.mk(u.Elem(), fmt.Sprintf("(select (select %s %s) %s)", m, loc, pe.Index))
			f.typeFacts(sv)
			return sv
		}
		// array inside a struct: stored whole in the field map
		key := structFieldMapKey(root, names)
		vs := sortOf(t)
		if vs == "" {
			f.unsupported("array of aggregates in struct field")
			return f.freshOf("x", t)
		}
		m := f.heapMapIn(en, key, vs)
		if len(path) == 0 {
			if st != nil {
				f.set(key, SV{Sort: "(Array Loc " + vs + ")", T: f.define(mapName(key), "(Array Loc "+vs+")", fmt.Sprintf("(store %s %s %s)", m, loc, st.T))})
				return *st
			}
			return f.mk(t, fmt.Sprintf("(select %s %s)", m, loc))
		}
		pe := path[0]
		if pe.Index == "" || len(path) > 1 {
			f.unsupported("path below array-in-struct")
			return f.freshOf("x", t)
		}
		if st != nil {
			nv := fmt.Sprintf("(store (select %s %s) %s %s)", m, loc, pe.Index, st.T)
			f.set(key, SV{Sort: "(Array Loc " + vs + ")", T: f.define(mapName(key), "(Array Loc "+vs+")", fmt.Sprintf("(store %s %s %s)", m, loc, nv))})
			return *st
		}
		sv := f.mk(u.Elem(), fmt.Sprintf("(select (select %s %s) %s)", m, loc, pe.Index))
		f.typeFacts(sv)
		return sv
	}
	// leaf
	if len(path) != 0 {
		f.unsupported("path below leaf type " + typeName(t))
		return f.freshOf("x", t)
	}
	var key string
	if root != nil {
		key = structFieldMapKey(root, names)
	} else {
		key = elemMapKey(t)
	}
	vs := sortOf(t)
	m := f.heapMapIn(en, key, vs)
	if st != nil {
		val := st.T
		if val == "" {
			val = f.locTerm(*st)
		}
		f.set(key, SV{Sort: "(Array Loc " + vs + ")", T: f.define(mapName(key), "(Array Loc "+vs+")", fmt.Sprintf("(store %s %s %s)", m, loc, val))})
		if key == "E$uint8" {
			f.ghostByteStore(loc, val)
		}
		return *st
	}
	sv := f.mk(t, fmt.Sprintf("(select %s %s)", m, loc))
	if len(sv.T) > 60 {
		sv = f.mk(t, f.define("ld", vs, sv.T))
	}
	f.typeFacts(sv)
	f.loadedRefFacts(en, sv)
	return sv
}

func mapName(key string) string { return strings.NewReplacer("$", "_").Replace(key) }

// loadedRefFacts: references read from the heap are older than the allocation watermark.
func (f *fnState) loadedRefFacts(en *env, sv SV) {
	nr := f.get(en, "G$nextref", sInt).T
	switch sv.Sort {
	case sLoc:
		f.assume(fmt.Sprintf("(< (l-ref %s) %s)", sv.T, nr))
	case sSlice:
		f.assume(fmt.Sprintf("(< (l-ref (s-loc %s)) %s)", sv.T, nr))
	case sIface:
		f.assume(fmt.Sprintf("(< (l-ref (i-ptr %s)) %s)", sv.T, nr))
	}
}

// ghostByteStore maintains the contiguous-writer ghost state of byte buffers:
// a store at the high-water mark appends to the trace, any other store junks it.
func (f *fnState) ghostByteStore(loc, b string) {
	r := fmt.Sprintf("(l-ref %s)", loc)
	hw := f.get(f.cur, "G$hw", "(Array Int Int)").T
	tr := f.get(f.cur, "G$tr", "(Array Int Tr)").T
	junk := f.fresh("junk", sTr)
	at := fmt.Sprintf("(= (l-idx %s) (select %s %s))", loc, hw, r)
	ntr := fmt.Sprintf("(store %s %s (ite %s (snoc (select %s %s) %s) %s))", tr, r, at, tr, r, b, junk)
	nhw := fmt.Sprintf("(store %s %s (ite %s (+ (select %s %s) 1) (select %s %s)))", hw, r, at, hw, r, hw, r)
	f.set("G$tr", SV{Sort: "(Array Int Tr)", T: f.define("G_tr", "(Array Int Tr)", ntr)})
	f.set("G$hw", SV{Sort: "(Array Int Int)", T: f.define("G_hw", "(Array Int Int)", nhw)})
}

// unsafeLoad handles *(*T)(unsafe.Pointer(&b[0])) and *(*string)(unsafe.Pointer(&slice)).
func (f *fnState) unsafeLoad(en *env, lv *LV) SV {
	T := lv.Reinterp
	if bits, signed, ok := bitsOf(T); ok && isByte(lv.RootT) && lv.Cell == nil && len(lv.Path) == 0 {
		k := bits / 8
		f.note("axiom U1: *(*T)(unsafe.Pointer(&b[0])) is a little-endian access of sizeof(T) bytes")
		if lv.Avail == "" {
			f.unsupported("unsafe load without known bounds")
		} else {
			f.oblige("SAFE:unsafe", "", f.site(), fmt.Sprintf("(>= %s %d)", lv.Avail, k))
		}
		m := f.heapMapIn(en, "E$uint8", sInt)
		var terms []string
		for j := 0; j < k; j++ {
			b := fmt.Sprintf("(select %s %s)", m, locOff(lv.Loc, fmt.Sprint(j)))
			f.typeFacts(SV{Typ: types.Typ[types.Uint8], Sort: sInt, T: b})
			if j == 0 {
				terms = append(terms, b)
			} else {
				terms = append(terms, fmt.Sprintf("(* %s %s)", pow2(8*j), b))
			}
		}
		u := "(+ " + strings.Join(terms, " ") + ")"
		if k == 1 {
			u = terms[0]
		}
		v := f.fresh("uld", sInt)
		if signed {
			f.fact(fmt.Sprintf("(= %s (let ((u %s)) (ite (< u %s) u (- u %s))))", v, u, pow2(bits-1), pow2(bits)))
		} else {
			f.fact(fmt.Sprintf("(= %s %s)", v, u))
		}
		sv := f.mk(T, v)
		return sv
	}
	if b, ok := T.Underlying().(*types.Basic); ok && b.Kind() == types.String {
		if st, ok := lv.RootT.Underlying().(*types.Slice); ok && isByte(st.Elem()) {
			f.note("axiom U2: *(*string)(unsafe.Pointer(&s)) is the string with the bytes of s")
			lv2 := lv.clone()
			lv2.Reinterp = nil
			s := f.loadIn(en, lv2)
			m := f.heapMapIn(en, "E$uint8", sInt)
			return f.mk(T, fmt.Sprintf("(strOf %s (s-loc %s) (s-len %s))", m, s.T, s.T))
		}
	}
	f.unsupported("unsafe cast to " + typeName(T))
	return f.freshOf("unsafe", T)
}

func (f *fnState) unsafeStore(lv *LV, v SV) {
	T := lv.Reinterp
	if bits, signed, ok := bitsOf(T); ok && isByte(lv.RootT) && lv.Cell == nil && len(lv.Path) == 0 {
		k := bits / 8
		f.note("axiom U1: *(*T)(unsafe.Pointer(&b[0])) is a little-endian access of sizeof(T) bytes")
		if lv.Avail == "" {
			f.unsupported("unsafe store without known bounds")
		} else {
			f.oblige("SAFE:unsafe", "", f.site(), fmt.Sprintf("(>= %s %d)", lv.Avail, k))
		}
		var ds, terms []string
		for j := 0; j < k; j++ {
			d := f.fresh("d", sInt)
			f.fact(fmt.Sprintf("(and (<= 0 %s) (< %s 256))", d, d))
			ds = append(ds, d)
			if j == 0 {
				terms = append(terms, d)
			} else {
				terms = append(terms, fmt.Sprintf("(* %s %s)", pow2(8*j), d))
			}
		}
		sum := "(+ " + strings.Join(terms, " ") + ")"
		if k == 1 {
			sum = terms[0]
		}
		u := v.T
		if signed {
			u = fmt.Sprintf("(ite (< %s 0) (+ %s %s) %s)", v.T, v.T, pow2(bits), v.T)
		}
		f.fact(fmt.Sprintf("(= %s %s)", sum, u))
		for j := 0; j < k; j++ {
			b := SV{Typ: types.Typ[types.Uint8], Sort: sInt, T: ds[j]}
			f.heapAccess2(f.cur, locOff(lv.Loc, fmt.Sprint(j)), types.Typ[types.Uint8], nil, nil, nil, &b)
		}
		return
	}
	f.unsupported("unsafe store as " + typeName(T))
}

func isByte(t types.Type) bool {
	b, ok := t.Underlying().(*types.Basic)
	return ok && b.Kind() == types.Uint8
}

// ptrLV returns the lvalue a pointer value designates; emits the nil check.
func (f *fnState) ptrLV(p SV, why string) *LV {
	if p.LV == nil {
		if p.Sort == sLoc {
			pt, ok := p.Typ.Underlying().(*types.Pointer)
			if ok {
				p.LV = &LV{Loc: p.T, RootT: pt.Elem()}
			}
		}
		if p.LV == nil {
			f.unsupported("dereference of non-pointer value")
			return &LV{Loc: f.fresh("badptr", sLoc), RootT: types.Typ[types.Int]}
		}
	}
	lv := p.LV
	if lv.Cell == nil && len(lv.Path) == 0 && !strings.HasPrefix(lv.Loc, "@global:") && !f.knownNonNil(lv.Loc) {
		f.oblige("SAFE:nil", "", f.site(), fmt.Sprintf("(not (= %s %s))", lv.Loc, nilLoc))
	}
	return lv
}

func (f *fnState) knownNonNil(loc string) bool {
	return strings.HasPrefix(loc, "(mk-loc newref") || strings.HasPrefix(loc, "(mk-loc |newref") || f.declared["nonnil:"+loc]
}

// ---- instructions ----------------------------------------------------------

func (f *fnState) instr(ins ssa.Instruction) {
	switch i := ins.(type) {
	case *ssa.Alloc:
		f.alloc(i)
	case *ssa.Store:
		lv := f.ptrLV(f.val(i.Addr), "store")
		f.store(lv, f.val(i.Val))
		f.limitedReaderGhost(i, lv)
	case *ssa.UnOp:
		f.unop(i)
	case *ssa.BinOp:
		f.vals[i] = f.binop(i.Op, f.val(i.X), f.val(i.Y), i.Type())
	case *ssa.FieldAddr:
		p := f.val(i.X)
		lv := f.ptrLV(p, "field").clone()
		lv.Path = append(lv.Path, PathElem{Field: i.Field})
		lv.Avail = ""
		f.vals[i] = SV{Typ: i.Type(), Sort: sLoc, LV: lv}
	case *ssa.Field:
		x := f.val(i.X)
		if i.Field < len(x.Agg) {
			f.vals[i] = x.Agg[i.Field]
		} else {
			f.unsupported("field of non-aggregate")
			f.vals[i] = f.freshOf("fld", i.Type())
		}
	case *ssa.IndexAddr:
		f.indexAddr(i)
	case *ssa.Index:
		x := f.val(i.X)
		idx := f.val(i.Index)
		switch u := i.X.Type().Underlying().(type) {
		case *types.Array:
			f.oblige("SAFE:index", "", f.site(), fmt.Sprintf("(and (<= 0 %s) (< %s %d))", idx.T, idx.T, u.Len()))
			sv := f.mk(i.Type(), fmt.Sprintf("(select %s %s)", x.T, idx.T))
			f.typeFacts(sv)
			f.vals[i] = sv
		case *types.Basic:
			// string index
			f.oblige("SAFE:index", "", f.site(), fmt.Sprintf("(and (<= 0 %s) (< %s (slen %s)))", idx.T, idx.T, x.T))
			sv := f.mk(i.Type(), fmt.Sprintf("(sbyte %s %s)", x.T, idx.T))
			f.typeFacts(sv)
			f.vals[i] = sv
		default:
			f.unsupported("index of " + typeName(i.X.Type()))
			f.vals[i] = f.freshOf("idx", i.Type())
		}
	case *ssa.Lookup:
		f.lookup(i)
	case *ssa.Slice:
		f.sliceOp(i)
	case *ssa.Convert:
		f.convert(i)
	case *ssa.MultiConvert:
		// conversion to or from a type parameter: the result is some value of the target type
		f.note("conversions involving a type parameter yield an arbitrary value of the target type (generic function bodies are executed abstractly)")
		f.vals[i] = f.freshOf("tpconv", i.Type())
	case *ssa.ChangeType:
		x := f.val(i.X)
		x.Typ = i.Type()
		f.vals[i] = x
	case *ssa.ChangeInterface:
		x := f.val(i.X)
		x.Typ = i.Type()
		f.vals[i] = x
	case *ssa.MakeInterface:
		f.makeInterface(i)
	case *ssa.TypeAssert:
		f.typeAssert(i)
	case *ssa.MakeSlice:
		f.makeSlice(i)
	case *ssa.MakeMap:
		f.makeMap(i)
	case *ssa.MapUpdate:
		f.mapUpdate(i)
	case *ssa.Range:
		f.rangeInit(i)
	case *ssa.Next:
		f.rangeNext(i)
	case *ssa.Extract:
		t := f.val(i.Tuple)
		if i.Index < len(t.Agg) {
			f.vals[i] = t.Agg[i.Index]
		} else {
			f.unsupported("extract from non-tuple")
			f.vals[i] = f.freshOf("ext", i.Type())
		}
	case *ssa.Call:
		f.call(i)
	case *ssa.Phi:
		// handled at block entry
	case *ssa.If, *ssa.Jump:
	case *ssa.Return:
		f.ret(i)
	case *ssa.Panic:
		f.oblige("SAFE:panic", "", f.site(), "false")
	case *ssa.RunDefers:
	case *ssa.DebugRef:
	case *ssa.MakeClosure:
		f.note("closures are opaque function values")
		sv := f.freshOf("closure", i.Type())
		f.vals[i] = sv
	case *ssa.SliceToArrayPointer:
		x := f.val(i.X)
		at := i.Type().(*types.Pointer).Elem().Underlying().(*types.Array)
		f.oblige("SAFE:slice", "", f.site(), fmt.Sprintf("(>= (s-len %s) %d)", x.T, at.Len()))
		f.vals[i] = SV{Typ: i.Type(), Sort: sLoc, T: fmt.Sprintf("(s-loc %s)", x.T), LV: &LV{Loc: fmt.Sprintf("(s-loc %s)", x.T), RootT: at}}
		f.declared["nonnil:"+fmt.Sprintf("(s-loc %s)", x.T)] = true
	case *ssa.Defer, *ssa.Go, *ssa.Select, *ssa.Send:
		f.unsupported(fmt.Sprintf("%T", ins))
	default:
		f.unsupported(fmt.Sprintf("%T", ins))
		if v, ok := ins.(ssa.Value); ok {
			f.vals[v] = f.freshOf("unk", v.Type())
		}
	}
}

func (f *fnState) newRef() string {
	nr := f.get(f.cur, "G$nextref", sInt).T
	r := f.fresh("newref", sInt)
	f.fact(fmt.Sprintf("(> %s 1)", r))
	f.assume(fmt.Sprintf("(= %s %s)", r, nr))
	f.set("G$nextref", SV{Sort: sInt, T: fmt.Sprintf("(+ %s 1)", r)})
	return r
}

func (f *fnState) alloc(a *ssa.Alloc) {
	et := a.Type().(*types.Pointer).Elem()
	if f.direct[a] {
		f.cur.cells[localKey(a)] = zeroValue(et)
		f.markModified(localKey(a))
		f.vals[a] = SV{Typ: a.Type(), Sort: sLoc, LV: &LV{Cell: a, RootT: et}}
		return
	}
	r := f.newRef()
	loc := fmt.Sprintf("(mk-loc %s 0)", r)
	f.vals[a] = SV{Typ: a.Type(), Sort: sLoc, T: loc, LV: &LV{Loc: loc, RootT: et}}
	f.zeroInit(loc, et)
	if at, ok := et.Underlying().(*types.Array); ok && isByte(at.Elem()) {
		// fresh byte buffer: ghost trace starts empty at offset 0
		f.set("G$hw", SV{Sort: "(Array Int Int)", T: fmt.Sprintf("(store %s %s 0)", f.get(f.cur, "G$hw", "(Array Int Int)").T, r)})
		f.set("G$tr", SV{Sort: "(Array Int Tr)", T: fmt.Sprintf("(store %s %s tr.empty)", f.get(f.cur, "G$tr", "(Array Int Tr)").T, r)})
	}
}

// zeroInit states that freshly allocated memory holds zero values.
func (f *fnState) zeroInit(loc string, t types.Type) {
	switch u := t.Underlying().(type) {
	case *types.Array:
		if u.Len() <= 64 {
			for i := int64(0); i < u.Len(); i++ {
				f.zeroInit(locOff(loc, fmt.Sprint(i)), u.Elem())
			}
			return
		}
		f.note("large arrays are not zero-initialised in the model")
		return
	}
	z := zeroValue(t)
	f.zeroFacts(loc, t, nil, nil, z)
}

func (f *fnState) zeroFacts(loc string, t types.Type, root types.Type, names []string, z SV) {
	switch u := t.Underlying().(type) {
	case *types.Struct:
		if root == nil {
			root = t
			names = nil
		}
		for i := 0; i < u.NumFields(); i++ {
			f.zeroFacts(loc, u.Field(i).Type(), root, append(append([]string(nil), names...), u.Field(i).Name()), z.Agg[i])
		}
		return
	}
	var key string
	if root != nil {
		key = structFieldMapKey(root, names)
	} else {
		key = elemMapKey(t)
	}
	vs := sortOf(t)
	if vs == "" {
		return
	}
	m := f.heapMap(key, vs)
	f.assume(fmt.Sprintf("(= (select %s %s) %s)", m, loc, z.T))
}

func (f *fnState) unop(i *ssa.UnOp) {
	x := f.val(i.X)
	switch i.Op {
	case token.MUL:
		lv := f.ptrLV(x, "load")
		sv := f.load(lv)
		sv.Typ = i.Type()
		if sv.Sort == sLoc && sv.LV == nil {
			sv = f.mk(i.Type(), sv.T)
		}
		f.vals[i] = sv
	case token.NOT:
		f.vals[i] = SV{Typ: i.Type(), Sort: sBool, T: not(x.T)}
	case token.SUB:
		f.vals[i] = f.arith(i.Type(), fmt.Sprintf("(- %s)", x.T))
	case token.XOR:
		// ^x = -x-1 (signed), max-x (unsigned)
		if bits, signed, ok := bitsOf(i.Type()); ok {
			if signed {
				f.vals[i] = f.mk(i.Type(), fmt.Sprintf("(- (- %s) 1)", x.T))
			} else {
				f.vals[i] = f.mk(i.Type(), fmt.Sprintf("(- %s %s)", "(- "+pow2(bits)+" 1)", x.T))
			}
		} else {
			f.unsupported("^ on non-integer")
			f.vals[i] = f.freshOf("xor", i.Type())
		}
	default:
		f.unsupported("unary " + i.Op.String())
		f.vals[i] = f.freshOf("un", i.Type())
	}
}

// arith wraps (unsigned, small signed) or checks (int, int64) an arithmetic result.
func (f *fnState) arith(t types.Type, term string) SV {
	bits, signed, ok := bitsOf(t)
	if !ok {
		return f.mk(t, term)
	}
	if signed && bits == 64 && f.e.CheckOverflow {
		v := f.define("ar", sInt, term)
		lo, hi, _ := intRange(t)
		f.oblige("SAFE:overflow", "", f.site(), fmt.Sprintf("(and (<= %s %s) (<= %s %s))", lo, v, v, hi))
		return f.mk(t, v)
	}
	v := f.define("ar", sInt, wrap(term, t))
	return f.mk(t, v)
}

func truncDiv(a, b string) string {
	return fmt.Sprintf("(let ((qa %s) (qb %s)) (ite (>= qa 0) (ite (> qb 0) (div qa qb) (- (div qa (- qb)))) (ite (> qb 0) (- (div (- qa) qb)) (div (- qa) (- qb)))))", a, b)
}

func (f *fnState) binop(op token.Token, x, y SV, rt types.Type) SV {
	isStr := x.Sort == sStr
	switch op {
	case token.ADD:
		if isStr {
			return f.mk(rt, fmt.Sprintf("(str.cat %s %s)", x.T, y.T))
		}
		return f.arith(rt, fmt.Sprintf("(+ %s %s)", x.T, y.T))
	case token.SUB:
		return f.arith(rt, fmt.Sprintf("(- %s %s)", x.T, y.T))
	case token.MUL:
		return f.arith(rt, fmt.Sprintf("(* %s %s)", x.T, y.T))
	case token.QUO:
		if _, _, ok := bitsOf(rt); ok {
			f.oblige("SAFE:div", "", f.site(), fmt.Sprintf("(not (= %s 0))", y.T))
			return f.arith(rt, truncDiv(x.T, y.T))
		}
	case token.REM:
		if _, _, ok := bitsOf(rt); ok {
			f.oblige("SAFE:div", "", f.site(), fmt.Sprintf("(not (= %s 0))", y.T))
			return f.arith(rt, fmt.Sprintf("(- %s (* %s %s))", x.T, y.T, truncDiv(x.T, y.T)))
		}
	case token.SHL, token.SHR:
		if _, s, ok := bitsOf(y.Typ); ok && s {
			f.oblige("SAFE:shift", "", f.site(), fmt.Sprintf("(>= %s 0)", y.T))
		} else if s, ok := typeParamInts(y.Typ); ok && s {
			// a shift count of a type parameter constrained to signed integers: negative counts panic
			f.oblige("SAFE:shift", "", f.site(), fmt.Sprintf("(>= %s 0)", y.T))
		}
		if _, ok := typeParamInts(rt); ok {
			f.note("arithmetic on values of an integer type parameter is modelled without a width (generic function bodies are executed abstractly)")
			return f.freshOf("tpshift", rt)
		}
		bits, _, _ := bitsOf(rt)
		if k, ok := constInt(y.T); ok && k >= 0 && k < 128 {
			if op == token.SHL {
				if k >= bits {
					return f.mk(rt, "0")
				}
				return f.mk(rt, f.define("shl", sInt, wrap(fmt.Sprintf("(* %s %s)", x.T, pow2(k)), rt)))
			}
			return f.mk(rt, fmt.Sprintf("(div %s %s)", x.T, pow2(k)))
		}
		fn := "shl"
		if op == token.SHR {
			fn = "shr"
		}
		sv := f.mk(rt, f.define(fn, sInt, fmt.Sprintf("(%s%d %s %s)", fn, bits, x.T, y.T)))
		f.typeFacts(sv)
		return sv
	case token.AND, token.OR, token.XOR, token.AND_NOT:
		bits, _, _ := bitsOf(rt)
		name := map[token.Token]string{token.AND: "band", token.OR: "bor", token.XOR: "bxor", token.AND_NOT: "bandnot"}[op]
		if x.Sort == sBool {
			break
		}
		sv := f.mk(rt, f.define(name, sInt, fmt.Sprintf("(%s%d %s %s)", name, bits, x.T, y.T)))
		f.typeFacts(sv)
		return sv
	case token.EQL, token.NEQ:
		if x.Typ != nil {
			if b, ok := x.Typ.Underlying().(*types.Basic); ok && b.Info()&types.IsFloat != 0 {
				f.unsupported("floating-point comparison")
			}
		}
		t := f.equal(x, y)
		if op == token.NEQ {
			t = not(t)
		}
		return SV{Typ: rt, Sort: sBool, T: t}
	case token.LSS, token.LEQ, token.GTR, token.GEQ:
		o := map[token.Token]string{token.LSS: "<", token.LEQ: "<=", token.GTR: ">", token.GEQ: ">="}[op]
		if isStr {
			lt := func(a, b string) string { return fmt.Sprintf("(str.lt %s %s)", a, b) }
			switch op {
			case token.LSS:
				return SV{Typ: rt, Sort: sBool, T: lt(x.T, y.T)}
			case token.GTR:
				return SV{Typ: rt, Sort: sBool, T: lt(y.T, x.T)}
			case token.LEQ:
				return SV{Typ: rt, Sort: sBool, T: not(lt(y.T, x.T))}
			default:
				return SV{Typ: rt, Sort: sBool, T: not(lt(x.T, y.T))}
			}
		}
		if b, ok := x.Typ.Underlying().(*types.Basic); ok && b.Info()&types.IsFloat != 0 {
			f.unsupported("floating-point comparison")
		}
		return SV{Typ: rt, Sort: sBool, T: fmt.Sprintf("(%s %s %s)", o, x.T, y.T)}
	}
	f.unsupported("binary " + op.String() + " on " + typeName(rt))
	return f.freshOf("bin", rt)
}

func constInt(t string) (int, bool) {
	n := 0
	if t == "" {
		return 0, false
	}
	for _, c := range t {
		if c < '0' || c > '9' {
			return 0, false
		}
		n = n*10 + int(c-'0')
		if n > 1<<20 {
			return 0, false
		}
	}
	return n, true
}

func (f *fnState) equal(x, y SV) string {
	if len(x.Agg) > 0 && len(x.Agg) == len(y.Agg) {
		var cs []string
		for i := range x.Agg {
			cs = append(cs, f.equal(x.Agg[i], y.Agg[i]))
		}
		return and(cs...)
	}
	xt, yt := x.T, y.T
	if xt == "" {
		xt = f.locTerm(x)
	}
	if yt == "" {
		yt = f.locTerm(y)
	}
	if x.Sort == sSlice || y.Sort == sSlice {
		// only comparison with nil is legal Go
		if yt == nilSlice || y.Sort != sSlice {
			return fmt.Sprintf("(= (l-ref (s-loc %s)) 0)", xt)
		}
		return fmt.Sprintf("(= (l-ref (s-loc %s)) 0)", yt)
	}
	return eq(xt, yt)
}

func (f *fnState) indexAddr(i *ssa.IndexAddr) {
	x := f.val(i.X)
	idx := f.val(i.Index)
	switch u := i.X.Type().Underlying().(type) {
	case *types.Slice:
		f.oblige("SAFE:index", "", f.site(), fmt.Sprintf("(and (<= 0 %s) (< %s (s-len %s)))", idx.T, idx.T, x.T))
		loc := f.define("eloc", sLoc, locOff(fmt.Sprintf("(s-loc %s)", x.T), idx.T))
		f.declared["nonnil:"+loc] = true
		if !isByte(u.Elem()) {
			// name the element the way quantified contract clauses do, so that they apply to it
			f.fact(fmt.Sprintf("(= (elt (s-loc %s) %s) %s)", x.T, idx.T, loc))
		}
		f.vals[i] = SV{Typ: i.Type(), Sort: sLoc, LV: &LV{Loc: loc, RootT: u.Elem(), Interior: true, Avail: fmt.Sprintf("(- (s-len %s) %s)", x.T, idx.T)}}
	case *types.Pointer:
		at := u.Elem().Underlying().(*types.Array)
		lv := f.ptrLV(x, "index").clone()
		if k, ok := constInt(idx.T); !ok || int64(k) >= at.Len() {
			f.oblige("SAFE:index", "", f.site(), fmt.Sprintf("(and (<= 0 %s) (< %s %d))", idx.T, idx.T, at.Len()))
		}
		lv.Path = append(lv.Path, PathElem{Index: idx.T})
		lv.Avail = fmt.Sprintf("(- %d %s)", at.Len(), idx.T)
		if lv.Cell == nil && len(lv.Path) == 1 && !lv.Interior && !strings.HasPrefix(lv.Loc, "@global:") {
			// standalone array object: fold the index into the location
			lv = &LV{Loc: f.define("eloc", sLoc, locOff(lv.Loc, idx.T)), RootT: at.Elem(), Avail: lv.Avail}
			f.declared["nonnil:"+lv.Loc] = true
		}
		f.vals[i] = SV{Typ: i.Type(), Sort: sLoc, LV: lv}
	default:
		f.unsupported("IndexAddr on " + typeName(i.X.Type()))
		f.vals[i] = f.freshOf("ia", i.Type())
	}
}

func (f *fnState) sliceOp(i *ssa.Slice) {
	x := f.val(i.X)
	var lo, hi, mx string
	if i.Low != nil {
		lo = f.val(i.Low).T
	} else {
		lo = "0"
	}
	switch u := i.X.Type().Underlying().(type) {
	case *types.Slice:
		ln, cp := fmt.Sprintf("(s-len %s)", x.T), fmt.Sprintf("(s-cap %s)", x.T)
		if i.High != nil {
			hi = f.val(i.High).T
		} else {
			hi = ln
		}
		if i.Max != nil {
			mx = f.val(i.Max).T
		} else {
			mx = cp
		}
		f.oblige("SAFE:slice", "", f.site(), fmt.Sprintf("(and (<= 0 %s) (<= %s %s) (<= %s %s) (<= %s %s))", lo, lo, hi, hi, mx, mx, cp))
		t := fmt.Sprintf("(mk-sl %s (- %s %s) (- %s %s))", locOff(fmt.Sprintf("(s-loc %s)", x.T), lo), hi, lo, mx, lo)
		f.vals[i] = f.mk(i.Type(), f.define("sl", sSlice, t))
	case *types.Basic: // string
		ln := fmt.Sprintf("(slen %s)", x.T)
		if i.High != nil {
			hi = f.val(i.High).T
		} else {
			hi = ln
		}
		f.oblige("SAFE:slice", "", f.site(), fmt.Sprintf("(and (<= 0 %s) (<= %s %s) (<= %s %s))", lo, lo, hi, hi, ln))
		f.vals[i] = f.mk(i.Type(), f.define("ss", sStr, fmt.Sprintf("(str.sub %s %s %s)", x.T, lo, hi)))
	case *types.Pointer:
		at := u.Elem().Underlying().(*types.Array)
		lv := f.ptrLV(x, "slice")
		n := fmt.Sprint(at.Len())
		if i.High != nil {
			hi = f.val(i.High).T
		} else {
			hi = n
		}
		if i.Max != nil {
			mx = f.val(i.Max).T
		} else {
			mx = n
		}
		if lv.Cell != nil || len(lv.Path) != 0 || lv.Interior {
			f.unsupported("slice of embedded or local array")
			f.vals[i] = f.freshOf("sl", i.Type())
			return
		}
		f.oblige("SAFE:slice", "", f.site(), fmt.Sprintf("(and (<= 0 %s) (<= %s %s) (<= %s %s) (<= %s %s))", lo, lo, hi, hi, mx, mx, n))
		t := fmt.Sprintf("(mk-sl %s (- %s %s) (- %s %s))", locOff(lv.Loc, lo), hi, lo, mx, lo)
		f.vals[i] = f.mk(i.Type(), f.define("sl", sSlice, t))
	default:
		f.unsupported("slice of " + typeName(i.X.Type()))
		f.vals[i] = f.freshOf("sl", i.Type())
	}
}

func (f *fnState) convert(i *ssa.Convert) {
	x := f.val(i.X)
	from, to := i.X.Type().Underlying(), i.Type().Underlying()
	fb, fok := from.(*types.Basic)
	tb, tok := to.(*types.Basic)
	switch {
	case tok && tb.Kind() == types.UnsafePointer:
		// keep the lvalue
		if x.LV == nil {
			f.unsupported("unsafe.Pointer from non-pointer")
			f.vals[i] = f.freshOf("up", i.Type())
			return
		}
		lv := x.LV.clone()
		lv.Unsafe = true
		f.vals[i] = SV{Typ: i.Type(), Sort: sLoc, LV: lv, T: x.T}
	case fok && fb.Kind() == types.UnsafePointer:
		pt, ok := to.(*types.Pointer)
		if !ok || x.LV == nil {
			f.unsupported("conversion from unsafe.Pointer to " + typeName(i.Type()))
			f.vals[i] = f.freshOf("up", i.Type())
			return
		}
		lv := x.LV.clone()
		lv.Reinterp = pt.Elem()
		f.vals[i] = SV{Typ: i.Type(), Sort: sLoc, LV: lv}
	case fok && tok && fb.Info()&types.IsInteger != 0 && tb.Info()&types.IsInteger != 0:
		f.vals[i] = f.mk(i.Type(), f.define("cv", sInt, wrap(x.T, i.Type())))
	case fok && tok && fb.Info()&types.IsFloat != 0 && tb.Info()&types.IsFloat != 0 && fb.Kind() == tb.Kind():
		f.vals[i] = f.mk(i.Type(), x.T)
	case tok && tb.Info()&types.IsString != 0:
		if st, ok := from.(*types.Slice); ok && isByte(st.Elem()) {
			m := f.heapMap("E$uint8", sInt)
			f.vals[i] = f.mk(i.Type(), f.define("str", sStr, fmt.Sprintf("(strOf %s (s-loc %s) (s-len %s))", m, x.T, x.T)))
			return
		}
		f.note("string conversions from runes/integers are opaque")
		f.vals[i] = f.freshOf("strcv", i.Type())
	case fok && fb.Info()&types.IsString != 0:
		if st, ok := to.(*types.Slice); ok && isByte(st.Elem()) {
			r := f.newRef()
			n := fmt.Sprintf("(slen %s)", x.T)
			sl := f.define("bs", sSlice, fmt.Sprintf("(mk-sl (mk-loc %s 0) %s %s)", r, n, n))
			m := f.heapMap("E$uint8", sInt)
			f.assume(fmt.Sprintf("(= (strOf %s (mk-loc %s 0) %s) %s)", m, r, n, x.T))
			f.vals[i] = f.mk(i.Type(), sl)
			return
		}
		f.note("[]rune(string) is opaque")
		f.vals[i] = f.freshOf("runes", i.Type())
	default:
		f.unsupported(fmt.Sprintf("conversion %s -> %s", typeName(i.X.Type()), typeName(i.Type())))
		f.vals[i] = f.freshOf("cv", i.Type())
	}
}

func (f *fnState) makeInterface(i *ssa.MakeInterface) {
	x := f.val(i.X)
	tag := f.e.typeTag(i.X.Type())
	var ptr string
	if x.Sort == sLoc {
		ptr = f.locTerm(x)
	} else {
		// boxed value: identity is a fresh location; the value itself is not tracked
		// except for comparable scalars, where equal values give equal boxes
		if x.Sort == sInt {
			ptr = fmt.Sprintf("(mk-loc 1 %s)", x.T)
		} else {
			ptr = fmt.Sprintf("(mk-loc %s 0)", f.newRef())
		}
	}
	box := f.define("if", sIface, fmt.Sprintf("(mk-if %d %s)", tag, ptr))
	f.vals[i] = f.mk(i.Type(), box)
	f.errIsFacts(box, i.X.Type(), x)
}

// errIsFacts records what errors.Is sees in a freshly boxed value: a dynamic type with neither
// an Is nor an Unwrap method matches only itself; a struct whose Unwrap method returns one of its
// fields matches what that field matches.
func (f *fnState) errIsFacts(box string, t types.Type, x SV) {
	if box == "" {
		return
	}
	ms := f.e.Prog.MethodSets.MethodSet(t)
	var unwrap *types.Selection
	for k := 0; k < ms.Len(); k++ {
		switch ms.At(k).Obj().Name() {
		case "Is", "As":
			return
		case "Unwrap":
			unwrap = ms.At(k)
		}
	}
	if unwrap == nil {
		f.assume(fmt.Sprintf("(forall ((t Iface)) (! (= (errIs %s t) (= %s t)) :pattern ((errIs %s t))))", box, box, box))
		return
	}
	st, ok := t.Underlying().(*types.Struct)
	if !ok || len(x.Agg) != st.NumFields() {
		return
	}
	fn := f.e.Prog.MethodValue(unwrap)
	if fn == nil || len(fn.Blocks) != 1 {
		return
	}
	fld := -1
	for _, ins := range fn.Blocks[0].Instrs {
		switch v := ins.(type) {
		case *ssa.FieldAddr:
			if fld >= 0 {
				return
			}
			fld = v.Field
		case *ssa.Field:
			if fld >= 0 {
				return
			}
			fld = v.Field
		case *ssa.Call:
			if b, ok := v.Call.Value.(*ssa.Builtin); ok && strings.HasPrefix(b.Name(), "ssa:") {
				continue
			}
			return
		case *ssa.MapUpdate, *ssa.Index, *ssa.IndexAddr, *ssa.Lookup:
			return
		}
	}
	if fld < 0 || x.Agg[fld].Sort != sIface {
		return
	}
	f.note("assumption: errors.Is follows Unwrap methods that return a field of the receiver")
	f.assume(fmt.Sprintf("(forall ((t Iface)) (! (= (errIs %s t) (or (= %s t) (errIs %s t))) :pattern ((errIs %s t))))", box, box, x.Agg[fld].T, box))
}

func (f *fnState) typeAssert(i *ssa.TypeAssert) {
	x := f.val(i.X)
	var ok string
	var val SV
	if _, isIface := i.AssertedType.Underlying().(*types.Interface); isIface {
		// interface-to-interface: succeeds for non-nil values whose dynamic type implements it — opaque
		okc := f.fresh("implements", sBool)
		f.fact(fmt.Sprintf("(=> %s (not (= %s %s)))", okc, x.T, nilIface))
		ok = okc
		val = f.mk(i.AssertedType, x.T)
	} else {
		tag := f.e.typeTag(i.AssertedType)
		ok = fmt.Sprintf("(= (i-tag %s) %d)", x.T, tag)
		if sortOf(i.AssertedType) == sLoc {
			val = f.mk(i.AssertedType, fmt.Sprintf("(i-ptr %s)", x.T))
		} else if sortOf(i.AssertedType) == sInt {
			val = f.mk(i.AssertedType, fmt.Sprintf("(l-idx (i-ptr %s))", x.T))
		} else {
			val = f.freshOf("ta", i.AssertedType)
		}
	}
	if i.CommaOk {
		// value is the zero value when !ok
		if val.T != "" {
			z := zeroValue(i.AssertedType)
			val = f.mk(i.AssertedType, fmt.Sprintf("(ite %s %s %s)", ok, val.T, z.T))
		}
		f.vals[i] = SV{Typ: i.Type(), Agg: []SV{val, {Typ: types.Typ[types.Bool], Sort: sBool, T: ok}}}
		return
	}
	f.oblige("SAFE:typeassert", "", f.site(), ok)
	f.vals[i] = val
}

func (f *fnState) makeSlice(i *ssa.MakeSlice) {
	ln := f.val(i.Len)
	cp := f.val(i.Cap)
	et := i.Type().Underlying().(*types.Slice).Elem()
	f.oblige("SAFE:make", "", f.site(), fmt.Sprintf("(and (<= 0 %s) (<= %s %s) (<= %s %s))", ln.T, ln.T, cp.T, cp.T, pow2(47)))
	r := f.newRef()
	f.meterAlloc(fmt.Sprintf("(* %s %d)", cp.T, sizes.Sizeof(et)))
	sl := f.define("mk", sSlice, fmt.Sprintf("(mk-sl (mk-loc %s 0) %s %s)", r, ln.T, cp.T))
	f.vals[i] = f.mk(i.Type(), sl)
	f.zeroRange(r, et)
	if isByte(et) {
		f.set("G$hw", SV{Sort: "(Array Int Int)", T: fmt.Sprintf("(store %s %s 0)", f.get(f.cur, "G$hw", "(Array Int Int)").T, r)})
		f.set("G$tr", SV{Sort: "(Array Int Tr)", T: fmt.Sprintf("(store %s %s tr.empty)", f.get(f.cur, "G$tr", "(Array Int Tr)").T, r)})
	}
}

func (f *fnState) meterAlloc(bytes string) {
	f.set("G$lastalloc", SV{Sort: sInt, T: f.define("lastalloc", sInt, bytes)})
	a := f.get(f.cur, "G$alloc", sInt).T
	f.set("G$alloc", SV{Sort: sInt, T: f.define("alloc", sInt, fmt.Sprintf("(+ %s %s)", a, bytes))})
}

// zeroRange: all elements of the fresh object r are zero in the current heap.
func (f *fnState) zeroRange(r string, et types.Type) {
	var walk func(t types.Type, root types.Type, names []string)
	walk = func(t types.Type, root types.Type, names []string) {
		switch u := t.Underlying().(type) {
		case *types.Struct:
			if root == nil {
				root = t
				names = nil
			}
			for k := 0; k < u.NumFields(); k++ {
				walk(u.Field(k).Type(), root, append(append([]string(nil), names...), u.Field(k).Name()))
			}
			return
		}
		vs := sortOf(t)
		if vs == "" {
			return
		}
		var key string
		if root != nil {
			key = structFieldMapKey(root, names)
		} else {
			key = elemMapKey(t)
		}
		m := f.heapMap(key, vs)
		z := zeroValue(t)
		f.assume(fmt.Sprintf("(forall ((zi Int)) (! (= (select %s (mk-loc %s zi)) %s) :pattern ((select %s (mk-loc %s zi)))))", m, r, z.T, m, r))
	}
	walk(et, nil, nil)
}

func (f *fnState) ret(i *ssa.Return) {
	if f.inlining > 0 {
		var res SV
		switch len(i.Results) {
		case 0:
			res = SV{}
		case 1:
			res = f.val(i.Results[0])
		default:
			res = SV{Typ: i.Parent().Signature.Results()}
			for _, r := range i.Results {
				res.Agg = append(res.Agg, f.val(r))
			}
		}
		f.inlineRet = &res
		return
	}
	f.retSeen++
	binds := map[string]SV{}
	for k, r := range i.Results {
		if k < len(f.results) {
			binds[f.results[k]] = f.val(r)
		}
	}
	if len(i.Results) == 1 {
		binds["result"] = f.val(i.Results[0])
	}
	if f.fc != nil {
		ctx := f.specCtx(binds)
		for _, c := range f.fc.Ensures {
			t := f.specBool(c.E, ctx)
			if o := f.oblige("POST", c.Label, normSite(c.Text)+" @ "+f.site(), t); o != nil {
				// postconditions are independent goals: a failed one must not make the others vacuous
				f.log = f.log[:len(f.log)-1]
			}
		}
		f.frameCheck()
		for _, ni := range f.fc.NI {
			f.niObligation(ni, binds)
		}
	}
	// cover: this return is reachable (vacuity guard)
	o := &Obligation{ID: fmt.Sprintf("%s/COVER/return %d", f.key(), f.retSeen), Func: f.key(), Class: "COVER",
		Site: "return " + f.site(), Goal: "false", Reach: f.reach, prefix: len(f.log), Expected: "sat", fs: f}
	f.obls = append(f.obls, o)
}

// niObligation builds the 2-safety obligation of a noninterference clause at a return.
func (f *fnState) niObligation(ni spec.NIClause, binds map[string]SV) {
	ctx := f.specCtx(binds)
	cond := f.specBool(ni.Cond, ctx)
	var res []string
	for _, n := range f.results {
		if v, ok := binds[n]; ok {
			res = append(res, f.flatten(v)...)
		}
	}
	// which entry memory may differ
	ectx := &specCtx{f: f, env: f.entry, old: f.entry, binds: f.params, pkg: ctx.pkg}
	sets := map[string]*modSet{}
	f.modItem(ni.Item.E, ectx, func(key string) *modSet {
		m := sets[key]
		if m == nil {
			m = &modSet{key: key}
			sets[key] = m
		}
		return m
	})
	info := &niInfo{bases: map[string]bool{}}
	for _, key := range sortedKeys(sets) {
		s := f.cellSort[key]
		base := f.cellBase(key, s).T
		info.bases[strings.Trim(base, "|")] = true
		var in []string
		for _, p := range sets[key].preds {
			in = append(in, p("nk"))
		}
		ks := "Loc"
		if !strings.HasPrefix(s, "(Array Loc") {
			ks = "Int"
		}
		info.relation = append(info.relation, fmt.Sprintf("(assert (forall ((nk %s)) (! (=> (not %s) (= (select %s nk) (select %s nk))) :pattern ((select %s nk)))))", ks, or(in...), base, "@B@"+base, "@B@"+base))
	}
	reach := f.reach
	info.goalB = func(ren func(string) string) string {
		var eqs []string
		for _, r := range res {
			eqs = append(eqs, eq(r, ren(r)))
		}
		return fmt.Sprintf("(=> (and %s %s %s) %s)", cond, ren(reach), ren(cond), and(eqs...))
	}
	o := f.oblige("NI", ni.Label, normSite(ni.Text)+" @ "+f.site(), "true!")
	if o != nil {
		o.ni = info
		// do not assume a 2-safety goal
		f.log = f.log[:len(f.log)-1]
	}
}

// limitedReaderGhost: an io.LimitedReader is a pass-through window onto its R; ghost
// stream state (taken, failed, rbyte) is keyed by the root of the wrapper chain, so
// installing R makes the wrapper share the root of what it wraps.
func (f *fnState) limitedReaderGhost(st *ssa.Store, lv *LV) {
	fa, ok := st.Addr.(*ssa.FieldAddr)
	if !ok || lv.Cell != nil || len(lv.Path) != 1 {
		return
	}
	pt, ok := fa.X.Type().Underlying().(*types.Pointer)
	if !ok {
		return
	}
	named, ok := pt.Elem().(*types.Named)
	if !ok || named.Obj().Pkg() == nil || named.Obj().Pkg().Path() != "io" || named.Obj().Name() != "LimitedReader" {
		return
	}
	stt := named.Underlying().(*types.Struct)
	if stt.Field(fa.Field).Name() != "R" {
		return
	}
	v := f.val(st.Val)
	self := fmt.Sprintf("(mk-if %d %s)", f.e.typeTag(types.NewPointer(named)), lv.Loc)
	f.note("ghost: io.LimitedReader passes reads through to R unchanged (stream state is keyed by the root of the wrapper chain)")
	f.assume(fmt.Sprintf("(= (rootid (sid %s)) (rootid (sid %s)))", self, v.T))
}
