package vc

import (
	"fmt"
	"strings"
)

// Theory smoke test. The axioms of the prelude, of the theory files and of the schema-derived reference
// functions are assumptions; if they contradict each other every obligation that can reach the contradiction
// is discharged vacuously. Function-level COVER probes catch that only when a solver happens to find the
// contradiction on that function's terms. These probes look for it directly: for every declared function with
// an integer parameter they assert ground applications at boundary values (-1, 0, 1, just above the
// address-space bound 2^47, 2^63) with fresh constants elsewhere, and nothing else; any `unsat` is an
// inconsistency of the theory itself. (This is how the unguarded `slen(strOf(e,l,n)) = n` — which contradicts
// `slen(s) <= 2^47` for n > 2^47 — would have been found.)

var smokeInts = []string{"(- 1)", "0", "1", "140737488355329", "9223372036854775808"}

type declFun struct {
	name   string
	params []string
	ret    string
}

// scanDeclFuns extracts the (declare-fun ...) forms of an SMT-LIB text.
func scanDeclFuns(text string) []declFun {
	var out []declFun
	for i := 0; ; {
		j := strings.Index(text[i:], "(declare-fun ")
		if j < 0 {
			break
		}
		start := i + j
		depth, end := 0, -1
		bar := false
		for k := start; k < len(text); k++ {
			c := text[k]
			if bar {
				if c == '|' {
					bar = false
				}
				continue
			}
			if c == '|' {
				bar = true
			} else if c == '(' {
				depth++
			} else if c == ')' {
				depth--
				if depth == 0 {
					end = k + 1
					break
				}
			}
		}
		if end < 0 {
			break
		}
		i = end
		kids, ok := sexpKids(text[start:end])
		if !ok || len(kids) != 4 {
			continue
		}
		ps, ok := sexpKids(kids[2])
		if !ok && strings.TrimSpace(kids[2]) != "()" {
			continue
		}
		out = append(out, declFun{name: kids[1], params: ps, ret: kids[3]})
	}
	return out
}

// SmokeObligations returns the boundary-instance probes for the functions visible to package pkg. With
// shared set, the functions of the prelude and the theory files are included (they are the same for every
// package: probe them once per run); otherwise only the functions declared for this package.
func (e *Engine) SmokeObligations(pkg string, shared bool) []*Obligation {
	decls := e.specDecls(pkg)
	sharedNames := map[string]bool{}
	var sharedText strings.Builder
	sharedText.WriteString(Prelude)
	for _, ln := range e.RawSMT {
		sharedText.WriteString(ln + "\n")
	}
	for _, d := range scanDeclFuns(sharedText.String()) {
		sharedNames[d.name] = true
	}
	var out []*Obligation
	for _, d := range scanDeclFuns(Prelude + decls) {
		if sharedNames[d.name] != shared {
			continue
		}
		var ints []int
		for i, p := range d.params {
			if p == "Int" {
				ints = append(ints, i)
			}
		}
		if len(ints) == 0 {
			continue
		}
		fs := &fnState{e: e, declared: map[string]bool{}, cellSort: map[string]string{}, notes: map[string]bool{}, strLits: map[string]string{}, sites: map[string]int{}}
		args := make([]string, len(d.params))
		for i, p := range d.params {
			if p != "Int" {
				args[i] = fmt.Sprintf("smk_a%d", i)
				fs.log = append(fs.log, fmt.Sprintf("(declare-const smk_a%d %s)", i, p))
			}
		}
		var combos [][]string
		switch {
		case len(ints) == 1:
			for _, v := range smokeInts {
				combos = append(combos, []string{v})
			}
		case len(ints) == 2:
			for _, v := range smokeInts {
				for _, w := range smokeInts {
					combos = append(combos, []string{v, w})
				}
			}
		default:
			for k := range ints {
				for _, v := range smokeInts {
					c := make([]string, len(ints))
					for m := range c {
						c[m] = "1"
					}
					c[k] = v
					combos = append(combos, c)
				}
			}
		}
		// the applications are held by uninterpreted predicates: an equation with a fresh constant would be
		// solved away by the preprocessor and the term would never reach the E-graph
		fs.log = append(fs.log, fmt.Sprintf("(declare-fun smk_p (%s) Bool)", d.ret), "(declare-fun smk_q (Int) Bool)")
		for _, c := range combos {
			a := append([]string(nil), args...)
			for k, ix := range ints {
				a[ix] = c[k]
			}
			app := fmt.Sprintf("(%s %s)", d.name, strings.Join(a, " "))
			fs.log = append(fs.log, fmt.Sprintf("(assert (smk_p %s))", app))
			if d.ret == "Str" {
				// lengths are where the address-space bound bites
				fs.log = append(fs.log, fmt.Sprintf("(assert (smk_q (slen %s)))", app))
			}
		}
		where := pkg
		if shared {
			where = "prelude"
		}
		out = append(out, &Obligation{ID: where + "/theory/" + strings.Trim(d.name, "|"), Func: where + "/theory", Class: "THEORY", Label: strings.Trim(d.name, "|"),
			Site: "boundary instances of " + strings.Trim(d.name, "|"), Goal: "false", Reach: "true", prefix: len(fs.log), Expected: "sat", fs: fs, PkgPath: pkg})
	}
	return out
}
