package vc

import (
	"crypto/sha1"
	"fmt"
	"go/types"
	"os"
	"path/filepath"
	"regexp"
	"strings"
	"sync"

	"gocv/internal/smt"
	"gocv/internal/spec"
)

// Prelude declares the sorts and the memory-model vocabulary shared by all queries.
const Prelude = `(set-option :produce-models true)
(set-logic ALL)
(declare-datatypes ((Loc 0)) (((mk-loc (l-ref Int) (l-idx Int)))))
(declare-datatypes ((Slice 0)) (((mk-sl (s-loc Loc) (s-len Int) (s-cap Int)))))
(declare-datatypes ((Iface 0)) (((mk-if (i-tag Int) (i-ptr Loc)))))
(declare-sort Str 0)
(declare-sort Tr 0)
(define-fun wf-slice ((s Slice)) Bool (and (<= 0 (s-len s)) (<= (s-len s) (s-cap s)) (<= (s-cap s) 140737488355328)
  (>= (l-ref (s-loc s)) 0) (<= 0 (l-idx (s-loc s))) (<= (l-idx (s-loc s)) 140737488355328)
  (=> (= (l-ref (s-loc s)) 0) (and (= (s-cap s) 0) (= (l-idx (s-loc s)) 0)))))
(define-fun wf-ptr ((p Loc)) Bool (=> (= (l-ref p) 0) (= (l-idx p) 0)))
(define-fun wf-iface ((x Iface)) Bool (and (>= (i-tag x) 0) (=> (= (i-tag x) 0) (= (i-ptr x) (mk-loc 0 0)))))
; strings: an abstract sort with length and bytes
(declare-fun slen (Str) Int)
(declare-fun sbyte (Str Int) Int)
(declare-const str.empty Str)
(declare-fun str.cat (Str Str) Str)
(declare-fun str.sub (Str Int Int) Str)
(declare-fun str.lt (Str Str) Bool)
(declare-fun strcode (Str) Int)
(declare-fun strdecode (Int) Str)
(declare-fun arrcode ((Array Int Int)) Int)
(declare-fun kpair (Int Int) Int)
(declare-fun kfst (Int) Int)
(declare-fun ksnd (Int) Int)
(assert (forall ((a Int) (b Int)) (! (and (= (kfst (kpair a b)) a) (= (ksnd (kpair a b)) b)) :pattern ((kpair a b)))))
(declare-fun strOf ((Array Loc Int) Loc Int) Str)
(assert (forall ((s Str)) (! (and (>= (slen s) 0) (<= (slen s) 140737488355328)) :pattern ((slen s)))))
(assert (= (slen str.empty) 0))
(assert (forall ((s Str)) (! (=> (= (slen s) 0) (= s str.empty)) :pattern ((slen s)))))
(assert (forall ((a Str) (b Str)) (! (=> (<= (+ (slen a) (slen b)) 140737488355328) (= (slen (str.cat a b)) (+ (slen a) (slen b)))) :pattern ((str.cat a b)))))
(assert (forall ((s Str) (i Int)) (! (and (<= 0 (sbyte s i)) (< (sbyte s i) 256)) :pattern ((sbyte s i)))))
(assert (forall ((s Str)) (! (= (strdecode (strcode s)) s) :pattern ((strcode s)))))
(assert (forall ((e (Array Loc Int)) (l Loc) (n Int)) (! (=> (and (>= n 0) (<= n 140737488355328)) (= (slen (strOf e l n)) n)) :pattern ((strOf e l n)))))
(assert (forall ((s Str) (lo Int) (hi Int)) (! (=> (and (<= 0 lo) (<= lo hi) (<= hi (slen s))) (= (slen (str.sub s lo hi)) (- hi lo))) :pattern ((str.sub s lo hi)))))
(define-fun lref ((l Loc)) Int (l-ref l))
(define-fun lidx ((l Loc)) Int (l-idx l))
; element location used inside quantified contract clauses (keeps arithmetic out of the triggers)
(declare-fun elt (Loc Int) Loc)
(assert (forall ((l Loc) (i Int)) (! (= (elt l i) (mk-loc (l-ref l) (+ (l-idx l) i))) :pattern ((elt l i)))))
; errors.Is(err, target) as a relation on interface values (facts added where the wrapping structure is known)
(declare-fun errIs (Iface Iface) Bool)
(assert (forall ((x Iface)) (! (=> (not (= x (mk-if 0 (mk-loc 0 0)))) (errIs x x)) :pattern ((errIs x x)))))
(assert (forall ((t Iface)) (! (= (errIs (mk-if 0 (mk-loc 0 0)) t) (= t (mk-if 0 (mk-loc 0 0)))) :pattern ((errIs (mk-if 0 (mk-loc 0 0)) t)))))
; streams, map order, bit operations (uninterpreted unless a theory file says more)
(declare-fun sid (Iface) Int)
(declare-fun rootid (Int) Int)
(declare-fun mapord (Int Int) Int)
(declare-fun band8 (Int Int) Int) (declare-fun bor8 (Int Int) Int) (declare-fun bxor8 (Int Int) Int) (declare-fun bandnot8 (Int Int) Int) (declare-fun shl8 (Int Int) Int) (declare-fun shr8 (Int Int) Int)
(declare-fun band16 (Int Int) Int) (declare-fun bor16 (Int Int) Int) (declare-fun bxor16 (Int Int) Int) (declare-fun bandnot16 (Int Int) Int) (declare-fun shl16 (Int Int) Int) (declare-fun shr16 (Int Int) Int)
(declare-fun band32 (Int Int) Int) (declare-fun bor32 (Int Int) Int) (declare-fun bxor32 (Int Int) Int) (declare-fun bandnot32 (Int Int) Int) (declare-fun shl32 (Int Int) Int) (declare-fun shr32 (Int Int) Int)
(declare-fun band64 (Int Int) Int) (declare-fun bor64 (Int Int) Int) (declare-fun bxor64 (Int Int) Int) (declare-fun bandnot64 (Int Int) Int) (declare-fun shl64 (Int Int) Int) (declare-fun shr64 (Int Int) Int)
`

// specDecls renders spec function declarations and axioms.
func (e *Engine) specDecls(pkgPath string) string {
	var sb strings.Builder
	for _, ln := range e.RawSMT {
		sb.WriteString(ln + "\n")
	}
	d := &fnState{e: e, declared: map[string]bool{}, cellSort: map[string]string{}, notes: map[string]bool{}, strLits: map[string]string{}}
	ctx := &specCtx{f: d, binds: map[string]SV{}, env: &env{cells: map[string]SV{}}, old: &env{cells: map[string]SV{}}, callee: true}
	for _, name := range sortedKeys(e.SpecFuncs) {
		sf := e.SpecFuncs[name]
		if sf.Body != nil {
			continue
		}
		if sf.PkgPath != "" && sf.PkgPath != pkgPath && strings.HasPrefix(sf.PkgPath, "vbasis/") {
			continue // schema-derived functions of another generated package
		}
		var ps []string
		for _, p := range sf.Params {
			if strings.HasPrefix(p.Sort, "heap:") {
				cc := *ctx
				cc.pkg = e.typesPkg(sf.PkgPath)
				for _, ks := range e.bundle(strings.TrimPrefix(p.Sort, "heap:"), &cc) {
					ps = append(ps, ks[1])
				}
				continue
			}
			pc := *ctx
			pc.pkg = e.typesPkg(sf.PkgPath)
			s, t := pc.specSort(p.Sort)
			if s == "" && t != nil {
				ps = append(ps, flatSorts(t)...)
			} else {
				ps = append(ps, s)
			}
		}
		rc := *ctx
		rc.pkg = e.typesPkg(sf.PkgPath)
		rs, _ := rc.specSort(sf.Ret)
		fmt.Fprintf(&sb, "(declare-fun %s (%s) %s)\n", sym(sf.Name), strings.Join(ps, " "), rs)
	}
	for _, ln := range e.RawSMTLate[pkgPath] {
		sb.WriteString(ln + "\n")
	}
	for _, ax := range e.Axioms {
		if ax.Lemma {
			continue
		}
		t := d.specBool(ax.E, ctx)
		fmt.Fprintf(&sb, "(assert %s) ; axiom %s\n", t, ax.Name)
	}
	return sb.String()
}

func flatSorts(t types.Type) []string {
	switch u := t.Underlying().(type) {
	case *types.Struct:
		var out []string
		for i := 0; i < u.NumFields(); i++ {
			out = append(out, flatSorts(u.Field(i).Type())...)
		}
		return out
	}
	return []string{sortOf(t)}
}

// BuildQuery assembles the SMT-LIB text of one obligation.
func (e *Engine) BuildQuery(o *Obligation, decls string) string {
	var sb strings.Builder
	sb.WriteString(Prelude)
	sb.WriteString(decls)
	sb.WriteString("; ---- " + o.ID + "\n")
	for _, ln := range o.fs.log[:o.prefix] {
		sb.WriteString(ln)
		sb.WriteByte('\n')
	}
	goal := o.Goal
	if o.ni != nil {
		// second copy of the run with every run-local symbol renamed
		ren := func(text string) string {
			return reSymTok.ReplaceAllStringFunc(text, func(tok string) string {
				bare := strings.Trim(tok, "|")
				if o.fs.localSyms[bare] || o.ni.bases[bare] {
					return sym(bare + "~B")
				}
				return tok
			})
		}
		for _, ln := range o.fs.log[:o.prefix] {
			r := ren(ln)
			if r == ln {
				continue // shared declaration or fact
			}
			sb.WriteString(r)
			sb.WriteByte('\n')
		}
		for _, rel := range o.ni.relation {
			// "@B@X" marks the renamed twin of base cell X
			rel = reBTwin.ReplaceAllStringFunc(rel, func(m string) string { return ren(strings.TrimPrefix(m, "@B@")) })
			sb.WriteString(rel)
			sb.WriteByte('\n')
		}
		for _, d := range o.fs.detFacts {
			if d.at > o.prefix || len(d.res) == 0 {
				continue
			}
			var ae, re []string
			for _, a := range d.args {
				ae = append(ae, eq(a, ren(a)))
			}
			for _, r := range d.res {
				re = append(re, eq(r, ren(r)))
			}
			if d.cond != "" {
				ae = append(ae, d.cond, ren(d.cond))
			}
			sb.WriteString(fmt.Sprintf("(assert (=> %s %s))\n", and(ae...), and(re...)))
		}
		goal = o.ni.goalB(ren)
	}
	if o.Reach != "true" {
		sb.WriteString("(assert " + o.Reach + ")\n")
	}
	skDecls, skBody := skolemizeGoal(goal)
	for _, d := range skDecls {
		sb.WriteString(d + "\n")
	}
	sb.WriteString("(assert (not " + skBody + "))\n")
	sb.WriteString("(check-sat)\n(get-model)\n")
	return sb.String()
}

var (
	reSymTok = regexp.MustCompile(`\|[^|]+\||[^\s()]+`)
	reBTwin  = regexp.MustCompile(`@B@(\|[^|]+\||[^\s()]+)`)
)

// Discharge solves all obligations in parallel.
func (e *Engine) Discharge(obls []*Obligation, par int) {
	declCache := map[string]string{}
	var declMu sync.Mutex
	declsFor := func(o *Obligation) string {
		pp := o.PkgPath
		if o.fs != nil && o.fs.fn != nil && o.fs.fn.Pkg != nil {
			pp = o.fs.fn.Pkg.Pkg.Path()
		}
		declMu.Lock()
		defer declMu.Unlock()
		d, ok := declCache[pp]
		if !ok {
			d = e.specDecls(pp)
			declCache[pp] = d
		}
		return d
	}
	if e.WorkDir == "" {
		// no work directory was given (developer CLI): use a temporary one and remove it afterwards
		d, _ := os.MkdirTemp("", "gocv")
		e.WorkDir = d
		defer func() { _ = os.RemoveAll(d); e.WorkDir = "" }()
	}
	if par < 1 {
		par = 1
	}
	solve := func(o *Obligation) {
		o.Query = e.BuildQuery(o, declsFor(o))
		h := sha1.Sum([]byte(o.ID))
		t := e.TimeoutS
		if o.Expected == "sat" && t > 8 {
			// cover / vacuity probes hold unless they are refuted; a contradiction is found quickly or not at all,
			// so they do not get the full time limit (quantified axioms make the solvers answer unknown late)
			t = 8
		}
		o.Result = smt.Solve(e.WorkDir, fmt.Sprintf("q_%x", h[:8]), o.Query, t)
	}
	// Frame obligations of one program point share prefix and reach condition and differ only in the
	// heap cell they talk about: they are first tried as one conjunction, and only if that is not
	// proved are they solved one by one (so a failure is still reported per cell).
	type job struct {
		single *Obligation
		batch  []*Obligation
	}
	var jobs []job
	groups := map[string][]*Obligation{}
	var order []string
	for _, o := range obls {
		if o.Class == "FRAME" && o.ni == nil && o.fs != nil && !e.NoBatch {
			site := o.Site
			if i := strings.LastIndex(site, ": "); i >= 0 {
				site = site[:i]
			}
			k := fmt.Sprintf("%p/%s/%s", o.fs, site, o.Reach)
			if _, ok := groups[k]; !ok {
				order = append(order, k)
			}
			groups[k] = append(groups[k], o)
			continue
		}
		jobs = append(jobs, job{single: o})
	}
	for _, k := range order {
		g := groups[k]
		if len(g) == 1 {
			jobs = append(jobs, job{single: g[0]})
		} else {
			jobs = append(jobs, job{batch: g})
		}
	}
	var wg sync.WaitGroup
	ch := make(chan job)
	for w := 0; w < par; w++ {
		wg.Add(1)
		go func() {
			defer wg.Done()
			for j := range ch {
				if j.single != nil {
					solve(j.single)
					continue
				}
				var goals []string
				for _, o := range j.batch {
					goals = append(goals, o.Goal)
				}
				b := *j.batch[0]
				for _, o := range j.batch {
					if o.prefix > b.prefix {
						b.prefix = o.prefix // no instruction runs between the members: what is recorded for a later one holds for all
					}
				}
				b.ID = j.batch[0].ID + fmt.Sprintf("+%d", len(j.batch)-1)
				b.Goal = and(goals...)
				solve(&b)
				if b.Result.Status == "unsat" {
					for _, o := range j.batch {
						o.Query = b.Query
						o.Result = b.Result
						o.Result.Seconds = b.Result.Seconds / float64(len(j.batch))
						o.Batched = len(j.batch)
					}
					continue
				}
				for _, o := range j.batch {
					solve(o)
				}
			}
		}()
	}
	for _, j := range jobs {
		ch <- j
	}
	close(ch)
	wg.Wait()
}

// RawLemma is a lemma about spec functions stated directly in SMT-LIB (used for lemmas about the
// schema-derived reference functions, whose arguments are flattened values).
type RawLemma struct {
	Pkg   string // package whose reference functions the lemma is about
	Name  string
	Decls []string // (declare-const ...) lines
	Hyps  []string // hypotheses (asserted)
	Goal  string
}

// RawLemmaObligations turns the registered raw lemmas into standalone obligations.
func (e *Engine) RawLemmaObligations(pkg string) []*Obligation {
	var out []*Obligation
	for _, l := range e.RawLemmas {
		if l.Pkg != pkg {
			continue
		}
		d := &fnState{e: e, declared: map[string]bool{}, cellSort: map[string]string{}, notes: map[string]bool{}, strLits: map[string]string{}, sites: map[string]int{}}
		d.log = append(d.log, l.Decls...)
		for _, h := range l.Hyps {
			d.log = append(d.log, "(assert "+h+")")
		}
		out = append(out, &Obligation{ID: pkg + "/lemma/" + l.Name, Func: pkg + "/lemma", Class: "LEMMA", Label: l.Name, Site: l.Name,
			Goal: l.Goal, Reach: "true", prefix: len(d.log), Expected: "unsat", fs: d, PkgPath: l.Pkg})
	}
	return out
}

// LemmaObligations turns `lemma` declarations into standalone obligations.
func (e *Engine) LemmaObligations() []*Obligation {
	var out []*Obligation
	for _, ax := range e.Axioms {
		if !ax.Lemma {
			continue
		}
		d := &fnState{e: e, declared: map[string]bool{}, cellSort: map[string]string{}, notes: map[string]bool{}, strLits: map[string]string{}, sites: map[string]int{}}
		ctx := &specCtx{f: d, binds: map[string]SV{}, env: &env{cells: map[string]SV{}}, old: &env{cells: map[string]SV{}}, callee: true}
		t := d.specBool(ax.E, ctx)
		out = append(out, &Obligation{ID: "lemma/" + ax.Name, Func: "lemma", Class: "LEMMA", Label: ax.Name, Site: normSite(ax.Text),
			Goal: t, Reach: "true", prefix: len(d.log), Expected: "unsat", fs: d})
	}
	return out
}

// SaveQuery writes the query of an obligation under dir and returns the path.
func SaveQuery(dir string, o *Obligation) string {
	h := sha1.Sum([]byte(o.ID))
	p := filepath.Join(dir, fmt.Sprintf("%x.smt2", h[:8]))
	_ = os.MkdirAll(dir, 0o755)
	_ = os.WriteFile(p, []byte(o.Query), 0o644)
	return p
}

var _ = spec.ParseExpr

// skolemizeGoal turns universal quantifiers in positive position at the top of a goal
// (under and / the consequent of =>) into fresh constants: the goal is negated in the query, so
// this is ordinary skolemisation done syntactically, which lets the solvers see the ground terms.
func skolemizeGoal(goal string) (decls []string, out string) {
	n := 0
	var walk func(g string) string
	walk = func(g string) string {
		g = strings.TrimSpace(g)
		kids, ok := sexpKids(g)
		if !ok || len(kids) == 0 {
			return g
		}
		switch kids[0] {
		case "forall":
			if len(kids) != 3 {
				return g
			}
			binders, ok := sexpKids(kids[1])
			if !ok {
				return g
			}
			body := kids[2]
			// strip an annotation (! body :pattern ...)
			if bk, ok := sexpKids(body); ok && len(bk) >= 2 && bk[0] == "!" {
				body = bk[1]
			}
			for _, b := range binders {
				bk, ok := sexpKids(b)
				if !ok || len(bk) != 2 {
					return g
				}
				n++
				nm := fmt.Sprintf("sk!%d!%s", n, strings.Trim(bk[0], "|"))
				decls = append(decls, fmt.Sprintf("(declare-const |%s| %s)", nm, bk[1]))
				body = fmt.Sprintf("(let ((%s |%s|)) %s)", bk[0], nm, body)
			}
			return walk2(body, walk)
		case "and":
			for i := 1; i < len(kids); i++ {
				kids[i] = walk(kids[i])
			}
			return "(" + strings.Join(kids, " ") + ")"
		case "=>":
			if len(kids) == 3 {
				return "(=> " + kids[1] + " " + walk(kids[2]) + ")"
			}
		}
		return g
	}
	out = walk(goal)
	return decls, out
}

// walk2 continues skolemisation below the let bindings introduced for skolem constants.
func walk2(g string, walk func(string) string) string {
	kids, ok := sexpKids(g)
	if ok && len(kids) == 3 && kids[0] == "let" {
		return "(let " + kids[1] + " " + walk2(kids[2], walk) + ")"
	}
	return walk(g)
}

// sexpKids splits a parenthesised s-expression into its direct children.
func sexpKids(g string) ([]string, bool) {
	g = strings.TrimSpace(g)
	if len(g) < 2 || g[0] != '(' || g[len(g)-1] != ')' {
		return nil, false
	}
	var kids []string
	depth, start, bar := 0, -1, false
	for i := 1; i < len(g)-1; i++ {
		c := g[i]
		if bar {
			if c == '|' {
				bar = false
			}
			continue
		}
		switch c {
		case '|':
			bar = true
			if depth == 0 && start < 0 {
				start = i
			}
		case '(':
			if depth == 0 && start < 0 {
				start = i
			}
			depth++
		case ')':
			depth--
			if depth < 0 {
				return nil, false
			}
			if depth == 0 && start >= 0 {
				kids = append(kids, g[start:i+1])
				start = -1
			}
		case ' ', '\t', '\n':
			if depth == 0 && start >= 0 {
				kids = append(kids, g[start:i])
				start = -1
			}
		default:
			if depth == 0 && start < 0 {
				start = i
			}
		}
	}
	if depth != 0 || bar {
		return nil, false
	}
	if start >= 0 {
		kids = append(kids, g[start:len(g)-1])
	}
	return kids, true
}
