package vc

import (
	"fmt"
	"go/token"
	"go/types"
	"regexp"
	"strconv"
	"strings"

	"gocv/internal/spec"

	"golang.org/x/tools/go/ssa"
)

// specCtx is the evaluation context of a contract expression.
type specCtx struct {
	f        *fnState
	env      *env // state the expression talks about
	old      *env // state old(...) talks about
	binds    map[string]SV
	pkg      *types.Package
	callee   bool      // evaluating a callee's contract at a call site: no access to caller locals
	heapsOld bool      // heap bundles of spec functions are taken from the old state (oh(...))
	inOld    bool      // inside old(...): parameters denote their entry values
	invLoop  *loopInfo // the loop whose invariant is being evaluated (it() counts completed iterations)
	locals   bool      // identifiers denote the current value of locals first (invariants, site assertions)
	bound    map[string]SV
}

func (c *specCtx) pkgPath() string {
	if c.pkg == nil {
		return ""
	}
	return c.pkg.Path()
}

func (f *fnState) specCtx(extra map[string]SV) *specCtx {
	b := map[string]SV{}
	for k, v := range f.params {
		b[k] = v
	}
	for k, v := range extra {
		b[k] = v
	}
	var pkg *types.Package
	if f.fn.Pkg != nil {
		pkg = f.fn.Pkg.Pkg
	}
	if f.fc != nil && f.fc.PkgPath != "" {
		if p := f.e.typesPkg(f.fc.PkgPath); p != nil {
			pkg = p
		}
	}
	return &specCtx{f: f, env: f.cur, old: f.entry, binds: b, pkg: pkg}
}

func (c *specCtx) with(name string, v SV) *specCtx {
	n := *c
	n.bound = map[string]SV{}
	for k, x := range c.bound {
		n.bound[k] = x
	}
	n.bound[name] = v
	return &n
}

// resolveType resolves a type expression written in a contract.
func (c *specCtx) resolveType(s string) types.Type {
	s = strings.TrimSpace(s)
	switch {
	case strings.HasPrefix(s, "[]"):
		if t := c.resolveType(s[2:]); t != nil {
			return types.NewSlice(t)
		}
		return nil
	case strings.HasPrefix(s, "*"):
		if t := c.resolveType(s[1:]); t != nil {
			return types.NewPointer(t)
		}
		return nil
	case strings.HasPrefix(s, "["):
		if j := strings.Index(s, "]"); j > 0 {
			n, err := strconv.Atoi(s[1:j])
			if err == nil {
				if t := c.resolveType(s[j+1:]); t != nil {
					return types.NewArray(t, int64(n))
				}
			}
		}
		return nil
	}
	if s == "byte" {
		return types.Typ[types.Uint8]
	}
	if o := types.Universe.Lookup(s); o != nil {
		if tn, ok := o.(*types.TypeName); ok {
			return tn.Type()
		}
	}
	if i := strings.LastIndex(s, "."); i > 0 {
		pn, tn := s[:i], s[i+1:]
		for _, p := range c.f.e.Prog.AllPackages() {
			if p.Pkg.Name() == pn || p.Pkg.Path() == pn {
				if o := p.Pkg.Scope().Lookup(tn); o != nil {
					if t, ok := o.(*types.TypeName); ok {
						return t.Type()
					}
				}
			}
		}
		return nil
	}
	if c.pkg != nil {
		if o := c.pkg.Scope().Lookup(s); o != nil {
			if t, ok := o.(*types.TypeName); ok {
				return t.Type()
			}
		}
	}
	return nil
}

// specSort maps a sort written in a quantifier / spec function to (SMT sort, Go type or nil).
func (c *specCtx) specSort(s string) (string, types.Type) {
	switch s {
	case "Tr":
		return sTr, nil
	case "Loc":
		return sLoc, nil
	case "Int":
		return sInt, nil
	case "Str":
		return sStr, nil
	case "Bool":
		return sBool, nil
	case "Iface":
		return sIface, nil
	}
	if strings.HasPrefix(s, "Mem<") && strings.HasSuffix(s, ">") {
		inner := s[4 : len(s)-1]
		if t := c.resolveType(inner); t != nil {
			return "(Array Loc " + sortOf(t) + ")", nil
		}
	}
	if strings.HasPrefix(s, "(") {
		return s, nil
	}
	if t := c.resolveType(s); t != nil {
		return sortOf(t), t
	}
	c.f.fail("%s: unknown sort %q in contract", c.f.fn, s)
	return sInt, nil
}

func (f *fnState) specBool(e spec.Expr, c *specCtx) string {
	v := f.specVal(e, c)
	if v.Sort != sBool {
		f.fail("%s: contract expression %s is not boolean (sort %s)", f.fn, e, v.Sort)
	}
	return v.T
}

func boolSV(t string) SV { return SV{Typ: types.Typ[types.Bool], Sort: sBool, T: t} }
func intSV(t string) SV  { return SV{Typ: types.Typ[types.Int], Sort: sInt, T: t} }

// findLocal finds a local variable of the function under verification by source name.
func (f *fnState) findLocal(name string) *ssa.Alloc {
	want := name
	nth := 1
	if i := strings.Index(name, "#"); i > 0 {
		want = name[:i]
		nth, _ = strconv.Atoi(name[i+1:])
	}
	var found []*ssa.Alloc
	for _, b := range f.fn.Blocks {
		for _, ins := range b.Instrs {
			if a, ok := ins.(*ssa.Alloc); ok && a.Comment == want {
				found = append(found, a)
			}
		}
	}
	if len(found) == 0 {
		return nil
	}
	// inside a loop invariant a name means the variable of that name declared in (or visible at the end of) the loop
	if !f.sitePos.IsValid() && f.invLookup != nil && nth == 1 && !strings.Contains(name, "#") && len(found) > 1 {
		var end token.Pos
		for b := range f.invLookup.blocks {
			for _, ins := range b.Instrs {
				if ins.Pos() > end {
					end = ins.Pos()
				}
			}
		}
		if end.IsValid() {
			if sc := f.fn.Pkg.Pkg.Scope().Innermost(end); sc != nil {
				if _, obj := sc.LookupParent(want, end); obj != nil {
					for _, a := range found {
						if a.Pos() == obj.Pos() {
							return a
						}
					}
				}
			}
		}
	}
	// at a source site the name means what Go's scoping says it means there
	if f.sitePos.IsValid() && nth == 1 && !strings.Contains(name, "#") && len(found) > 1 {
		if sc := f.fn.Pkg.Pkg.Scope().Innermost(f.sitePos); sc != nil {
			if _, obj := sc.LookupParent(want, f.sitePos); obj != nil {
				for _, a := range found {
					if a.Pos() == obj.Pos() {
						return a
					}
				}
			}
		}
	}
	// sort by position
	for i := 0; i < len(found); i++ {
		for j := i + 1; j < len(found); j++ {
			if found[j].Pos() < found[i].Pos() {
				found[i], found[j] = found[j], found[i]
			}
		}
	}
	if nth-1 < len(found) {
		return found[nth-1]
	}
	return nil
}

func (f *fnState) specVal(e spec.Expr, c *specCtx) SV {
	switch x := e.(type) {
	case *spec.IntLit:
		s := x.V
		if strings.HasPrefix(s, "0x") || strings.HasPrefix(s, "0X") {
			n, err := strconv.ParseUint(s[2:], 16, 64)
			if err != nil {
				f.fail("bad literal %s", s)
			}
			s = strconv.FormatUint(n, 10)
		}
		return intSV(s)
	case *spec.BoolLit:
		if x.V {
			return boolSV("true")
		}
		return boolSV("false")
	case *spec.StrLit:
		return SV{Typ: types.Typ[types.String], Sort: sStr, T: f.strLit(x.V)}
	case *spec.Ident:
		return f.specIdent(x.Name, c)
	case *spec.Unary:
		switch x.Op {
		case "!":
			return boolSV(not(f.specBool(x.X, c)))
		case "-":
			v := f.specVal(x.X, c)
			return intSV(fmt.Sprintf("(- %s)", v.T))
		case "*":
			p := f.specVal(x.X, c)
			if p.LV == nil {
				f.fail("%s: dereference of non-pointer %s in contract", f.fn, x.X)
			}
			return f.loadIn(c.env, p.LV)
		case "&":
			f.fail("%s: & is not supported in contracts", f.fn)
		}
	case *spec.Binary:
		return f.specBinary(x, c)
	case *spec.Sel:
		return f.specSel(x, c)
	case *spec.Index:
		b := f.specVal(x.X, c)
		i := f.specVal(x.I, c)
		switch u := typeUnder(b.Typ).(type) {
		case *types.Slice:
			if f.quant > 0 || !isByte(u.Elem()) {
				et := fmt.Sprintf("(elt (s-loc %s) %s)", b.T, i.T)
				if f.quant > 0 {
					f.quantElts = append(f.quantElts, et)
				}
				return f.heapAccess(c.env, et, u.Elem(), nil, nil, nil)
			}
			return f.heapAccess(c.env, locOff(fmt.Sprintf("(s-loc %s)", b.T), i.T), u.Elem(), nil, nil, nil)
		case *types.Array:
			sv := f.mk(u.Elem(), fmt.Sprintf("(select %s %s)", b.T, i.T))
			return sv
		case *types.Basic:
			if b.Sort == sStr {
				return intSV(fmt.Sprintf("(sbyte %s %s)", b.T, i.T))
			}
		case *types.Map:
			// Go semantics: the zero value when the key is absent
			code := f.keyCode(i)
			dom := f.get(c.env, "M$dom", "(Array Int (Array Int Bool))").T
			present := fmt.Sprintf("(select (select %s %s) %s)", dom, b.T, code)
			v := f.heapAccess(c.env, mapSlot(b.T, code), u.Elem(), nil, nil, nil)
			return f.iteSV(present, v, zeroValue(u.Elem()))
		}
		if strings.HasPrefix(b.Sort, "(Array") {
			return SV{Sort: arrayValSort(b.Sort), T: fmt.Sprintf("(select %s %s)", b.T, i.T)}
		}
		f.fail("%s: cannot index %s in contract", f.fn, x.X)
	case *spec.SliceE:
		b := f.specVal(x.X, c)
		lo, hi := "0", ""
		if x.Lo != nil {
			lo = f.specVal(x.Lo, c).T
		}
		if b.Sort == sSlice {
			if x.Hi != nil {
				hi = f.specVal(x.Hi, c).T
			} else {
				hi = fmt.Sprintf("(s-len %s)", b.T)
			}
			return SV{Typ: b.Typ, Sort: sSlice, T: fmt.Sprintf("(mk-sl %s (- %s %s) (- (s-cap %s) %s))", locOff(fmt.Sprintf("(s-loc %s)", b.T), lo), hi, lo, b.T, lo)}
		}
		f.fail("%s: cannot slice %s in contract", f.fn, x.X)
	case *spec.Call:
		return f.specCall(x, c)
	case *spec.Quant:
		n := *c
		n.bound = map[string]SV{}
		for k, v := range c.bound {
			n.bound[k] = v
		}
		var decls []string
		var guards []string
		for _, qv := range x.Vars {
			s, t := c.specSort(qv.Sort)
			name := "q_" + qv.Name
			n.bound[qv.Name] = SV{Typ: t, Sort: s, T: name}
			if t != nil {
				if pt, ok := t.Underlying().(*types.Pointer); ok {
					v := n.bound[qv.Name]
					v.LV = &LV{Loc: name, RootT: pt.Elem()}
					n.bound[qv.Name] = v
				}
				if lo, hi, ok := intRange(t); ok {
					guards = append(guards, fmt.Sprintf("(<= %s %s)", lo, name), fmt.Sprintf("(<= %s %s)", name, hi))
				}
			}
			decls = append(decls, fmt.Sprintf("(%s %s)", name, s))
		}
		f.quant++
		savedElts := f.quantElts
		f.quantElts = nil
		body := f.specBool(x.Body, &n)
		elts := f.quantElts
		f.quantElts = savedElts
		f.quant--
		// triggers: element locations indexed by the bound variables (arithmetic-free); a clause without
		// such a term keeps the solver's own choice
		var pats []string
		if len(x.Vars) == 1 {
			name := "q_" + x.Vars[0].Name
			seenP := map[string]bool{}
			for _, et := range elts {
				if strings.HasSuffix(et, " "+name+")") && !seenP[et] && !strings.Contains(et[:len(et)-len(name)-1], name) {
					seenP[et] = true
					pats = append(pats, et)
				}
			}
		}
		q := "exists"
		if x.Forall {
			q = "forall"
			if len(guards) > 0 {
				body = fmt.Sprintf("(=> %s %s)", and(guards...), body)
			}
		} else if len(guards) > 0 {
			body = and(append(guards, body)...)
		}
		if len(pats) > 0 && x.Forall {
			var ps []string
			for _, p := range pats {
				ps = append(ps, ":pattern ("+p+")")
			}
			return boolSV(fmt.Sprintf("(%s (%s) (! %s %s))", q, strings.Join(decls, " "), body, strings.Join(ps, " ")))
		}
		return boolSV(fmt.Sprintf("(%s (%s) %s)", q, strings.Join(decls, " "), body))
	}
	f.fail("%s: unsupported contract expression %s", f.fn, e)
	return SV{}
}

func arrayValSort(s string) string {
	// "(Array K V)" -> V
	inner := strings.TrimSuffix(strings.TrimPrefix(s, "(Array "), ")")
	depth := 0
	for i := 0; i < len(inner); i++ {
		switch inner[i] {
		case '(':
			depth++
		case ')':
			depth--
		case ' ':
			if depth == 0 {
				return inner[i+1:]
			}
		}
	}
	return inner
}

func typeUnder(t types.Type) types.Type {
	if t == nil {
		return nil
	}
	return t.Underlying()
}

// nameElt states (outside quantifiers) that the element location of slice b at index i has its elt name too, so
// that quantified clauses triggered on elt terms apply to a byte a ground clause mentions.
func (f *fnState) nameElt(b, i string) {
	if f.quant > 0 || strings.Contains(i, "q_") {
		return
	}
	f.fact(fmt.Sprintf("(= (elt (s-loc %s) %s) %s)", b, i, locOff(fmt.Sprintf("(s-loc %s)", b), i)))
}

func (f *fnState) specIdent(name string, c *specCtx) SV {
	f.invLookup = c.invLoop
	defer func() { f.invLookup = nil }()
	if v, ok := c.bound[name]; ok {
		return v
	}
	if c.locals && !c.callee && !c.inOld {
		if a := f.findLocal(name); a != nil {
			et := a.Type().(*types.Pointer).Elem()
			if f.direct[a] {
				return f.loadIn(c.env, &LV{Cell: a, RootT: et})
			}
			if v, ok := f.vals[a]; ok && v.LV != nil {
				return f.loadIn(c.env, v.LV)
			}
		}
	}
	if v, ok := c.binds[name]; ok {
		return v
	}
	switch name {
	case "nil":
		return SV{Sort: "nil", T: "nil"}
	}
	if !c.callee {
		if a := f.findLocal(name); a != nil {
			et := a.Type().(*types.Pointer).Elem()
			if f.direct[a] {
				return f.loadIn(c.env, &LV{Cell: a, RootT: et})
			}
			v, ok := f.vals[a]
			if ok && v.LV != nil {
				return f.loadIn(c.env, v.LV)
			}
		}
	}
	// package-level variable of the contract's package
	if c.pkg != nil {
		if o := c.pkg.Scope().Lookup(name); o != nil {
			if v, ok := o.(*types.Var); ok {
				return f.loadIn(c.env, &LV{Loc: "@global:V:" + c.pkg.Path() + "." + name, RootT: v.Type()})
			}
			if cn, ok := o.(*types.Const); ok {
				return intSV(cn.Val().ExactString())
			}
		}
	}
	f.fail("%s: unknown identifier %q in contract", f.fn, name)
	return SV{}
}

func (f *fnState) specSel(x *spec.Sel, c *specCtx) SV {
	if srt, ok := f.e.theoryFunc(x.String()); ok {
		return SV{Sort: srt, T: x.String()}
	}
	// package-qualified global (io.EOF)
	if id, ok := x.X.(*spec.Ident); ok {
		if _, bound := c.bound[id.Name]; !bound {
			if _, isBind := c.binds[id.Name]; !isBind && (c.callee || f.findLocal(id.Name) == nil) {
				for _, p := range f.e.Prog.AllPackages() {
					if p.Pkg.Name() == id.Name {
						if o := p.Pkg.Scope().Lookup(x.Name); o != nil {
							if v, ok := o.(*types.Var); ok {
								return f.loadIn(c.env, &LV{Loc: "@global:V:" + p.Pkg.Path() + "." + x.Name, RootT: v.Type()})
							}
							if cn, ok := o.(*types.Const); ok {
								return intSV(cn.Val().ExactString())
							}
						}
					}
				}
			}
		}
	}
	b := f.specVal(x.X, c)
	if len(b.Agg) > 0 || (b.Typ != nil && b.LV == nil && isStruct(b.Typ)) {
		st := b.Typ.Underlying().(*types.Struct)
		for i := 0; i < st.NumFields(); i++ {
			if st.Field(i).Name() == x.Name {
				return b.Agg[i]
			}
		}
	}
	if b.LV != nil {
		if st, ok := b.LV.RootT.Underlying().(*types.Struct); ok && len(b.LV.Path) == 0 {
			for i := 0; i < st.NumFields(); i++ {
				if st.Field(i).Name() == x.Name {
					lv := b.LV.clone()
					lv.Path = append(lv.Path, PathElem{Field: i})
					return f.loadIn(c.env, lv)
				}
			}
		}
	}
	f.fail("%s: cannot select .%s of %s in contract", f.fn, x.Name, x.X)
	return SV{}
}

func isStruct(t types.Type) bool {
	_, ok := t.Underlying().(*types.Struct)
	return ok
}

func (f *fnState) nilOf(other SV) string {
	switch other.Sort {
	case sLoc:
		return nilLoc
	case sSlice:
		return nilSlice
	case sIface:
		return nilIface
	case sInt:
		return "0"
	}
	f.fail("%s: nil compared with value of sort %s", f.fn, other.Sort)
	return ""
}

func (f *fnState) specBinary(x *spec.Binary, c *specCtx) SV {
	switch x.Op {
	case "&&":
		return boolSV(and(f.specBool(x.X, c), f.specBool(x.Y, c)))
	case "||":
		return boolSV(or(f.specBool(x.X, c), f.specBool(x.Y, c)))
	case "==>":
		return boolSV(fmt.Sprintf("(=> %s %s)", f.specBool(x.X, c), f.specBool(x.Y, c)))
	case "<==>":
		return boolSV(fmt.Sprintf("(= %s %s)", f.specBool(x.X, c), f.specBool(x.Y, c)))
	}
	a := f.specVal(x.X, c)
	b := f.specVal(x.Y, c)
	switch x.Op {
	case "==", "!=":
		var t string
		switch {
		case a.Sort == "nil" && b.Sort == "nil":
			t = "true"
		case a.Sort == "nil":
			a.T = f.nilOf(b)
			a.Sort = b.Sort
			t = f.equal(b, a)
		case b.Sort == "nil":
			b.T = f.nilOf(a)
			b.Sort = a.Sort
			t = f.equal(a, b)
		case a.Sort == sSlice && b.Sort == sSlice:
			t = eq(a.T, b.T) // spec-level equality of slice headers
		default:
			t = f.equal(a, b)
		}
		if x.Op == "!=" {
			t = not(t)
		}
		return boolSV(t)
	case "<", "<=", ">", ">=":
		return boolSV(fmt.Sprintf("(%s %s %s)", x.Op, a.T, b.T))
	case "+":
		if a.Sort == sStr {
			return SV{Typ: a.Typ, Sort: sStr, T: fmt.Sprintf("(str.cat %s %s)", a.T, b.T)}
		}
		return intSV(fmt.Sprintf("(+ %s %s)", a.T, b.T))
	case "-":
		return intSV(fmt.Sprintf("(- %s %s)", a.T, b.T))
	case "*":
		return intSV(fmt.Sprintf("(* %s %s)", a.T, b.T))
	case "/":
		return intSV(truncDiv(a.T, b.T))
	case "%":
		return intSV(fmt.Sprintf("(- %s (* %s %s))", a.T, b.T, truncDiv(a.T, b.T)))
	case "<<":
		if k, ok := constInt(b.T); ok {
			return intSV(fmt.Sprintf("(* %s %s)", a.T, pow2(k)))
		}
	}
	f.fail("%s: unsupported operator %s in contract", f.fn, x.Op)
	return SV{}
}

// streamID is the ghost identity of a reader/writer (interface or pointer value).
func (f *fnState) streamID(v SV) string {
	switch v.Sort {
	case sIface:
		return fmt.Sprintf("(rootid (sid %s))", v.T)
	case sLoc:
		tag := 0
		if v.Typ != nil {
			tag = f.e.typeTag(v.Typ)
		}
		return fmt.Sprintf("(rootid (sid (mk-if %d %s)))", tag, f.locTerm(v))
	}
	f.fail("%s: stream identity of sort %s", f.fn, v.Sort)
	return ""
}

func (f *fnState) specCall(x *spec.Call, c *specCtx) SV {
	arg := func(i int) SV {
		if i >= len(x.Args) {
			f.fail("%s: %s: missing argument %d", f.fn, x, i)
		}
		return f.specVal(x.Args[i], c)
	}
	switch x.Fn {
	case "old":
		n := *c
		n.env = c.old
		n.inOld = true
		return f.specVal(x.Args[0], &n)
	case "atentry":
		// atentry(e), in a loop invariant: e evaluated in the state in which the loop was entered
		if c.invLoop == nil || c.invLoop.entryEnv == nil {
			f.fail("%s: atentry() is only meaningful in a loop invariant", f.fn)
		}
		n := *c
		n.env = c.invLoop.entryEnv
		return f.specVal(x.Args[0], &n)
	case "oh":
		// oh(e): e with the heap arguments of spec functions taken from the entry state
		n := *c
		n.heapsOld = true
		return f.specVal(x.Args[0], &n)
	case "len", "cap":
		v := arg(0)
		if v.Typ == nil {
			f.fail("%s: len of untyped %s", f.fn, x.Args[0])
		}
		if _, ok := v.Typ.Underlying().(*types.Map); ok {
			return intSV(fmt.Sprintf("(select %s %s)", f.get(c.env, "M$len", "(Array Int Int)").T, v.T))
		}
		return f.lenOf(v, x.Fn == "cap")
	case "off":
		return intSV(fmt.Sprintf("(l-idx (s-loc %s))", arg(0).T))
	case "ref":
		v := arg(0)
		if v.Sort == sSlice {
			return intSV(fmt.Sprintf("(l-ref (s-loc %s))", v.T))
		}
		if v.Sort == sIface {
			return intSV(fmt.Sprintf("(l-ref (i-ptr %s))", v.T))
		}
		return intSV(fmt.Sprintf("(l-ref %s)", f.locTerm(v)))
	case "loc":
		v := arg(0)
		if v.Sort == sSlice {
			return SV{Sort: sLoc, T: fmt.Sprintf("(s-loc %s)", v.T)}
		}
		return SV{Sort: sLoc, T: f.locTerm(v)}
	case "tr":
		return SV{Sort: sTr, T: fmt.Sprintf("(select %s (l-ref (s-loc %s)))", f.get(c.env, "G$tr", "(Array Int Tr)").T, arg(0).T)}
	case "hw":
		return intSV(fmt.Sprintf("(select %s (l-ref (s-loc %s)))", f.get(c.env, "G$hw", "(Array Int Int)").T, arg(0).T))
	case "alloc":
		return intSV(f.get(c.env, "G$alloc", sInt).T)
	case "lastalloc":
		return intSV(f.get(c.env, "G$lastalloc", sInt).T)
	case "written":
		return SV{Sort: sTr, T: fmt.Sprintf("(select %s %s)", f.get(c.env, "G$written", "(Array Int Tr)").T, f.streamID(arg(0)))}
	case "taken":
		return intSV(fmt.Sprintf("(select %s %s)", f.get(c.env, "G$taken", "(Array Int Int)").T, f.streamID(arg(0))))
	case "failed":
		return boolSV(fmt.Sprintf("(= (select %s %s) 1)", f.get(c.env, "G$failed", "(Array Int Int)").T, f.streamID(arg(0))))
	case "sid":
		return intSV(f.streamID(arg(0)))
	case "byte":
		b, i := arg(0), arg(1)
		if f.quant > 0 && strings.Contains(i.T, "q_") {
			// inside a quantifier the byte is named through elt, which gives the clause an arithmetic-free trigger
			et := fmt.Sprintf("(elt (s-loc %s) %s)", b.T, i.T)
			f.quantElts = append(f.quantElts, et)
			return SV{Typ: types.Typ[types.Uint8], Sort: sInt, T: fmt.Sprintf("(select %s %s)", f.heapMapIn(c.env, "E$uint8", sInt), et)}
		}
		f.nameElt(b.T, i.T)
		t := fmt.Sprintf("(select %s %s)", f.heapMapIn(c.env, "E$uint8", sInt), locOff(fmt.Sprintf("(s-loc %s)", b.T), i.T))
		return SV{Typ: types.Typ[types.Uint8], Sort: sInt, T: t}
	case "le":
		// le(buf, off, k, v): v is the unsigned value whose k little-endian digits are buf[off..off+k)
		b, o, kk, v := arg(0), arg(1), arg(2), arg(3)
		k, ok := constInt(kk.T)
		if !ok || k < 1 || k > 16 {
			f.fail("%s: le: width must be a constant", f.fn)
		}
		m := f.heapMapIn(c.env, "E$uint8", sInt)
		var terms, rng []string
		for j := 0; j < k; j++ {
			f.nameElt(b.T, fmt.Sprintf("(+ %s %d)", o.T, j))
			bt := fmt.Sprintf("(select %s %s)", m, locOff(fmt.Sprintf("(s-loc %s)", b.T), fmt.Sprintf("(+ %s %d)", o.T, j)))
			rng = append(rng, fmt.Sprintf("(<= 0 %s)", bt), fmt.Sprintf("(< %s 256)", bt))
			if j == 0 {
				terms = append(terms, bt)
			} else {
				terms = append(terms, fmt.Sprintf("(* %s %s)", pow2(8*j), bt))
			}
		}
		sum := terms[0]
		if k > 1 {
			sum = "(+ " + strings.Join(terms, " ") + ")"
		}
		return boolSV(and(append(rng, eq(v.T, sum))...))
	case "leval", "rle":
		// leval(buf, off, k): the unsigned value of the k little-endian bytes buf[off..off+k)
		// rle(r, pos, k): the same for bytes pos..pos+k of what reader r delivers
		b, o, kk := arg(0), arg(1), arg(2)
		k, ok := constInt(kk.T)
		if !ok || k < 1 || k > 16 {
			f.fail("%s: %s: width must be a constant", f.fn, x.Fn)
		}
		var terms []string
		for j := 0; j < k; j++ {
			var bt string
			if x.Fn == "leval" {
				f.nameElt(b.T, fmt.Sprintf("(+ %s %d)", o.T, j))
				bt = fmt.Sprintf("(select %s %s)", f.heapMapIn(c.env, "E$uint8", sInt), locOff(fmt.Sprintf("(s-loc %s)", b.T), fmt.Sprintf("(+ %s %d)", o.T, j)))
				f.typeFacts(SV{Typ: types.Typ[types.Uint8], Sort: sInt, T: bt})
			} else {
				bt = fmt.Sprintf("(rbyte %s (+ %s %d))", f.streamID(b), o.T, j)
			}
			if j == 0 {
				terms = append(terms, bt)
			} else {
				terms = append(terms, fmt.Sprintf("(* %s %s)", pow2(8*j), bt))
			}
		}
		if k == 1 {
			return intSV(terms[0])
		}
		return intSV("(+ " + strings.Join(terms, " ") + ")")
	case "signed":
		// signed(u, bits): the two's complement value of the unsigned reading u
		u, bb := arg(0), arg(1)
		k, _ := constInt(bb.T)
		return intSV(fmt.Sprintf("(ite (< %s %s) %s (- %s %s))", u.T, pow2(k-1), u.T, u.T, pow2(k)))
	case "unsigned":
		// unsigned(v, bits): two's complement reading of a signed value
		v, bb := arg(0), arg(1)
		k, _ := constInt(bb.T)
		return intSV(fmt.Sprintf("(ite (< %s 0) (+ %s %s) %s)", v.T, v.T, pow2(k), v.T))
	case "str":
		b, lo, n := arg(0), arg(1), arg(2)
		return SV{Typ: types.Typ[types.String], Sort: sStr, T: fmt.Sprintf("(strOf %s %s %s)", f.heapMapIn(c.env, "E$uint8", sInt), locOff(fmt.Sprintf("(s-loc %s)", b.T), lo.T), n.T)}
	case "ghost":
		// ghost("name", p): user-defined integer ghost state attached to the object p points to
		nm, ok := x.Args[0].(*spec.StrLit)
		if !ok || len(x.Args) != 2 {
			f.fail("%s: ghost needs a name literal and an object", f.fn)
		}
		o := arg(1)
		return intSV(fmt.Sprintf("(select %s (l-ref %s))", f.get(c.env, "G$u$"+nm.V, "(Array Int Int)").T, f.locTerm(o)))
	case "memkey":
		// memkey("E$string", "(Array Loc Str)"): the heap map with that cell key
		k, ok := x.Args[0].(*spec.StrLit)
		srt, ok2 := x.Args[1].(*spec.StrLit)
		if !ok || !ok2 {
			f.fail("%s: memkey needs two string literals", f.fn)
		}
		return SV{Sort: srt.V, T: f.get(c.env, k.V, srt.V).T}
	case "mem":
		// mem(T) / mem(T.f): the heap map itself, as a value
		text := x.Args[0].String()
		var keys []string
		if t := c.resolveType(text); t != nil && sortOf(t) != "" {
			keys = []string{elemMapKey(t)}
			f.leafKeys(t)
		} else {
			keys = f.mapKeysOfTypeExpr(x.Args[0], c)
		}
		if len(keys) != 1 {
			f.fail("%s: mem(%s) does not name a single heap map", f.fn, text)
		}
		s := f.cellSort[keys[0]]
		return SV{Sort: s, T: f.get(c.env, keys[0], s).T}
	case "istype":
		v := arg(0)
		t := c.resolveType(x.Args[1].String())
		if t == nil {
			f.fail("%s: istype: unknown type %s", f.fn, x.Args[1])
		}
		return boolSV(fmt.Sprintf("(= (i-tag %s) %d)", v.T, f.e.typeTag(t)))
	case "asptr":
		v := arg(0)
		t := c.resolveType(x.Args[1].String())
		if t == nil {
			f.fail("%s: asptr: unknown type %s", f.fn, x.Args[1])
		}
		return f.mk(t, fmt.Sprintf("(i-ptr %s)", v.T))
	case "iface":
		// iface(p): the interface value holding pointer p
		v := arg(0)
		return SV{Sort: sIface, T: fmt.Sprintf("(mk-if %d %s)", f.e.typeTag(v.Typ), f.locTerm(v))}
	case "allocated":
		// allocated(k): location k designates memory that existed at function entry
		v := arg(0)
		var r string
		switch v.Sort {
		case sSlice:
			r = fmt.Sprintf("(l-ref (s-loc %s))", v.T)
		default:
			r = fmt.Sprintf("(l-ref %s)", f.locTerm(v))
		}
		return boolSV(fmt.Sprintf("(< %s %s)", r, f.get(c.old, "G$nextref", sInt).T))
	case "isfresh":
		v := arg(0)
		var r string
		switch v.Sort {
		case sSlice:
			r = fmt.Sprintf("(l-ref (s-loc %s))", v.T)
		default:
			r = fmt.Sprintf("(l-ref %s)", f.locTerm(v))
		}
		return boolSV(fmt.Sprintf("(>= %s %s)", r, f.get(c.old, "G$nextref", sInt).T))
	case "int", "int8", "int16", "int32", "int64", "uint", "uint8", "uint16", "uint32", "uint64":
		v := arg(0)
		t := c.resolveType(x.Fn)
		if x.Fn == "int" {
			// spec ints are mathematical
			return intSV(v.T)
		}
		return f.mk(t, wrap(v.T, t))
	case "ite":
		cnd, a, b := f.specBool(x.Args[0], c), arg(1), arg(2)
		return SV{Typ: a.Typ, Sort: a.Sort, T: fmt.Sprintf("(ite %s %s %s)", cnd, a.T, b.T)}
	case "inrange":
		v := arg(0)
		t := c.resolveType(x.Args[1].String())
		lo, hi, _ := intRange(t)
		return boolSV(fmt.Sprintf("(and (<= %s %s) (<= %s %s))", lo, v.T, v.T, hi))
	case "it":
		return f.iterCount(x, c)
	case "ranged":
		return f.rangedValue(x, c)
	}
	if sf, ok := f.e.SpecFuncs[x.Fn]; ok && sf.Body != nil {
		// macro: evaluate the body with parameters bound to the arguments (state-dependent)
		n := *c
		n.bound = map[string]SV{}
		for k, v := range c.bound {
			n.bound[k] = v
		}
		if len(sf.Params) != len(x.Args) {
			f.fail("%s: %s expects %d arguments", f.fn, sf.Name, len(sf.Params))
		}
		mc := *c
		if mp := f.e.typesPkg(sf.PkgPath); mp != nil {
			mc.pkg = mp // parameter sorts of a macro are written in its own package
		}
		for i, p := range sf.Params {
			v := arg(i)
			if _, t := mc.specSort(p.Sort); t != nil && v.Typ == nil {
				v.Typ = t
			}
			if v.Sort == sLoc && v.LV == nil && v.Typ != nil {
				v = f.mk(v.Typ, v.T)
			}
			n.bound[p.Name] = v
		}
		if mp := f.e.typesPkg(sf.PkgPath); mp != nil {
			n.pkg = mp
		}
		return f.specVal(sf.Body, &n)
	}
	if sf, ok := f.e.SpecFuncs[x.Fn]; ok {
		var ts []string
		for _, p := range sf.Params {
			if strings.HasPrefix(p.Sort, "heap:") {
				he := c.env
				if c.heapsOld {
					he = c.old
				}
				for _, ks := range f.e.bundle(strings.TrimPrefix(p.Sort, "heap:"), c) {
					ts = append(ts, f.get(he, ks[0], ks[1]).T)
				}
			}
		}
		for i := range x.Args {
			v := arg(i)
			ts = append(ts, f.flatten(v)...)
		}
		rcx := *c
		if p := f.e.typesPkg(sf.PkgPath); p != nil {
			rcx.pkg = p
		}
		rs, rt := rcx.specSort(sf.Ret)
		t := "(" + sym(sf.Name) + " " + strings.Join(ts, " ") + ")"
		if len(ts) == 0 {
			t = sym(sf.Name)
		}
		return SV{Typ: rt, Sort: rs, T: t}
	}
	// raw SMT function from the theory prelude: name(args) with sort suffix name:Sort
	if i := strings.Index(x.Fn, "$"); i > 0 {
		var ts []string
		for j := range x.Args {
			ts = append(ts, f.flatten(arg(j))...)
		}
		return SV{Sort: x.Fn[i+1:], T: "(" + x.Fn[:i] + " " + strings.Join(ts, " ") + ")"}
	}
	if s, ok := f.e.theoryFunc(x.Fn); ok {
		var ts []string
		for j := range x.Args {
			ts = append(ts, f.flatten(arg(j))...)
		}
		var typ types.Type
		if s == sInt {
			typ = types.Typ[types.Int]
		}
		if len(ts) == 0 {
			return SV{Typ: typ, Sort: s, T: x.Fn}
		}
		return SV{Typ: typ, Sort: s, T: "(" + x.Fn + " " + strings.Join(ts, " ") + ")"}
	}
	f.fail("%s: unknown function %q in contract", f.fn, x.Fn)
	return SV{}
}

var reTheoryDecl = regexp.MustCompile(`\((declare-fun|define-fun|declare-const)\s+([^\s()]+)\s+`)

// theoryFunc looks a name up among the functions declared by the SMT prelude and
// the raw theory files; it returns the result sort.
func (e *Engine) theoryFunc(name string) (string, bool) {
	if e.theory == nil {
		e.theory = map[string]string{}
		scan := func(text string) {
			for _, m := range reTheoryDecl.FindAllStringSubmatchIndex(text, -1) {
				kind, nm := text[m[2]:m[3]], text[m[4]:m[5]]
				rest := text[m[1]:]
				if kind != "declare-const" {
					// skip the parameter list
					depth, i := 0, 0
					for i < len(rest) {
						if rest[i] == '(' {
							depth++
						} else if rest[i] == ')' {
							depth--
							if depth == 0 {
								i++
								break
							}
						}
						i++
					}
					rest = strings.TrimLeft(rest[i:], " \t\n")
				}
				// result sort: an atom or a parenthesised sort
				var srt string
				if strings.HasPrefix(rest, "(") {
					depth := 0
					for i := 0; i < len(rest); i++ {
						if rest[i] == '(' {
							depth++
						} else if rest[i] == ')' {
							depth--
							if depth == 0 {
								srt = rest[:i+1]
								break
							}
						}
					}
				} else {
					j := strings.IndexAny(rest, " \t\n)")
					if j < 0 {
						j = len(rest)
					}
					srt = rest[:j]
				}
				e.theory[nm] = srt
			}
		}
		scan(Prelude)
		for _, r := range e.RawSMT {
			scan(r)
		}
	}
	s, ok := e.theory[name]
	return s, ok
}

func (f *fnState) flatten(v SV) []string {
	if v.Typ != nil && v.T == "" && v.LV == nil {
		if st, ok := v.Typ.Underlying().(*types.Struct); ok && st.NumFields() == 0 {
			return nil // empty struct: no components
		}
	}
	if len(v.Agg) > 0 {
		var out []string
		for _, a := range v.Agg {
			out = append(out, f.flatten(a)...)
		}
		return out
	}
	if v.T == "" {
		return []string{f.locTerm(v)}
	}
	return []string{v.T}
}

// iterCount: it() is the number of completed iterations of the loop whose
// invariant is being evaluated; it(n) that of loop n.
func (f *fnState) iterCount(x *spec.Call, c *specCtx) SV {
	l := f.loopArg(x, c)
	own := c.invLoop == l
	for _, ins := range l.header.Instrs {
		switch i := ins.(type) {
		case *ssa.UnOp:
			if a, ok := i.X.(*ssa.Alloc); ok && a.Comment == "rangeindex" {
				v, ok := c.env.cells[localKey(a)]
				if !ok {
					return intSV("0")
				}
				if own {
					return intSV(fmt.Sprintf("(+ %s 1)", v.T))
				}
				return intSV(v.T) // inside the body the header has already advanced the index
			}
		case *ssa.Next:
			if rg, ok := i.Iter.(*ssa.Range); ok {
				v, ok := c.env.cells["R:"+rg.Name()]
				if !ok {
					return intSV("0")
				}
				if own {
					return intSV(v.T)
				}
				return intSV(fmt.Sprintf("(- %s 1)", v.T))
			}
		}
	}
	f.fail("%s: it(): loop %d is not a range loop", f.fn, l.ordinal)
	return SV{}
}

// bundle resolves a heap bundle to (cell key, sort) pairs.
func (e *Engine) bundle(name string, c *specCtx) [][2]string {
	if ks, ok := e.bundleKeys[name]; ok {
		return ks
	}
	hb := e.Bundles[name]
	if hb == nil {
		c.f.fail("unknown heap bundle %q", name)
	}
	cc := *c
	if p := e.typesPkg(hb.PkgPath); p != nil {
		cc.pkg = p
	}
	var out [][2]string
	for _, te := range hb.Types {
		if strings.HasPrefix(te, "key:") {
			// raw cell key with its sort: key:<cell>:<sort>
			rest := strings.TrimPrefix(te, "key:")
			if j := strings.Index(rest, ":"); j > 0 {
				k, srt := rest[:j], rest[j+1:]
				if c.f.cellSort[k] == "" {
					c.f.cellSort[k] = srt
				}
				out = append(out, [2]string{k, srt})
				continue
			}
		}
		switch te {
		case "M$dom":
			out = append(out, [2]string{"M$dom", "(Array Int (Array Int Bool))"})
			continue
		case "M$len":
			out = append(out, [2]string{"M$len", "(Array Int Int)"})
			continue
		}
		ex, err := spec.ParseExpr(te)
		if err != nil {
			c.f.fail("heap bundle %s: %v", name, err)
		}
		var keys []string
		if t := cc.resolveType(te); t != nil && sortOf(t) != "" {
			keys = []string{elemMapKey(t)}
			if c.f.cellSort[keys[0]] == "" {
				c.f.cellSort[keys[0]] = "(Array Loc " + sortOf(t) + ")"
			}
		} else {
			keys = c.f.mapKeysOfTypeExpr(ex, &cc)
		}
		for _, k := range keys {
			srt := c.f.cellSort[k]
			out = append(out, [2]string{k, srt})
		}
	}
	e.bundleKeys[name] = out
	return out
}

// rangedValue: ranged() / ranged(n) is the container loop n ranges over.
func (f *fnState) rangedValue(x *spec.Call, c *specCtx) SV {
	l := f.loopArg(x, c)
	h := l.header
	if iff, ok := h.Instrs[len(h.Instrs)-1].(*ssa.If); ok {
		if b, ok := iff.Cond.(*ssa.BinOp); ok {
			if call, ok := b.Y.(*ssa.Call); ok {
				if bi, ok := call.Call.Value.(*ssa.Builtin); ok && bi.Name() == "len" {
					return f.val(call.Call.Args[0])
				}
			}
		}
	}
	for _, ins := range h.Instrs {
		if nx, ok := ins.(*ssa.Next); ok {
			if rg, ok := nx.Iter.(*ssa.Range); ok {
				return f.val(rg.X)
			}
		}
	}
	f.fail("%s: ranged(): loop %d is not a range loop", f.fn, l.ordinal)
	return SV{}
}

func (f *fnState) loopArg(x *spec.Call, c *specCtx) *loopInfo {
	var l *loopInfo
	if len(x.Args) == 1 {
		n, _ := constInt(f.specVal(x.Args[0], c).T)
		for _, li := range f.loopList {
			if li.ordinal == n {
				l = li
			}
		}
	} else {
		for _, li := range f.loopList {
			if li.blocks[f.blk] || li.header == f.blk {
				if l == nil || len(li.blocks) < len(l.blocks) {
					l = li
				}
			}
		}
	}
	if l == nil {
		f.fail("%s: %s: no such loop", f.fn, x)
	}
	return l
}
