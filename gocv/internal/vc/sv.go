package vc

import (
	"fmt"
	"go/types"
	"regexp"
	"sort"
	"strings"

	"golang.org/x/tools/go/ssa"
)

// SV is a symbolic value. Scalars carry an SMT term; struct and tuple values
// are aggregates of SVs; pointers carry an lvalue (so that interior pointers
// produced by FieldAddr/IndexAddr need no SMT encoding).
type SV struct {
	Typ  types.Type // Go type when known (nil for pure spec sorts)
	Sort string     // SMT sort of T ("" for aggregates)
	T    string     // SMT term
	Agg  []SV       // struct fields / tuple components
	LV   *LV        // for pointer values
}

// PathElem is one step of an lvalue path.
type PathElem struct {
	Field int    // struct field index (when Index == "")
	Index string // SMT Int term for an array index step
}

// LV is an lvalue: a root (direct local cell or heap location) and a path.
type LV struct {
	Cell     *ssa.Alloc // non-escaping local
	Loc      string     // heap root (SMT term of sort Loc)
	RootT    types.Type // type of the object at the root
	Path     []PathElem
	Avail    string // for pointers into a slice: number of elements available from here ("" unknown)
	Interior bool   // pointer to an element of a slice: an array-typed element is stored whole, not spread over (ref, idx)
	// Reinterp != nil: pointer obtained by casting through unsafe.Pointer
	Unsafe   bool
	Reinterp types.Type
}

func (lv *LV) clone() *LV {
	n := *lv
	n.Path = append([]PathElem(nil), lv.Path...)
	return &n
}

const (
	sInt   = "Int"
	sBool  = "Bool"
	sStr   = "Str"
	sLoc   = "Loc"
	sSlice = "Slice"
	sIface = "Iface"
	sTr    = "Tr"
)

const nilLoc = "(mk-loc 0 0)"
const nilSlice = "(mk-sl (mk-loc 0 0) 0 0)"
const nilIface = "(mk-if 0 (mk-loc 0 0))"

// sortOf maps a Go type to its SMT sort; "" for aggregates (struct/tuple).
// typeParamInts: t is a type parameter whose constraint admits only integer types; signed reports whether
// all of them are signed. Bodies of generic functions are executed abstractly over such a parameter: its
// values are integers of unknown width (no wrap-around is modelled, which is sound for safety obligations
// that do not depend on the width).
func typeParamInts(t types.Type) (signed bool, ok bool) {
	tp, isTP := types.Unalias(t).(*types.TypeParam)
	if !isTP {
		return false, false
	}
	allSigned, any := true, false
	var walk func(it *types.Interface) bool
	walk = func(it *types.Interface) bool {
		for i := 0; i < it.NumEmbeddeds(); i++ {
			switch e := it.EmbeddedType(i).(type) {
			case *types.Union:
				for k := 0; k < e.Len(); k++ {
					b, isB := e.Term(k).Type().Underlying().(*types.Basic)
					if !isB || b.Info()&types.IsInteger == 0 {
						return false
					}
					any = true
					if b.Info()&types.IsUnsigned != 0 {
						allSigned = false
					}
				}
			default:
				if ei, isI := e.Underlying().(*types.Interface); isI {
					if !walk(ei) {
						return false
					}
				} else if b, isB := e.Underlying().(*types.Basic); isB && b.Info()&types.IsInteger != 0 {
					any = true
					if b.Info()&types.IsUnsigned != 0 {
						allSigned = false
					}
				} else {
					return false
				}
			}
		}
		return true
	}
	it, isI := tp.Constraint().Underlying().(*types.Interface)
	if !isI || !walk(it) || !any {
		return false, false
	}
	return allSigned, true
}

func sortOf(t types.Type) string {
	if _, ok := typeParamInts(t); ok {
		return sInt
	}
	switch u := t.Underlying().(type) {
	case *types.Basic:
		switch {
		case u.Info()&types.IsBoolean != 0:
			return sBool
		case u.Info()&types.IsString != 0:
			return sStr
		case u.Kind() == types.UnsafePointer:
			return sLoc
		case u.Kind() == types.UntypedNil:
			return sLoc
		default:
			return sInt
		}
	case *types.Pointer:
		return sLoc
	case *types.Slice:
		return sSlice
	case *types.Map, *types.Chan, *types.Signature:
		return sInt
	case *types.Interface:
		return sIface
	case *types.Array:
		es := sortOf(u.Elem())
		if es == "" {
			return "" // arrays of structs: unsupported as values
		}
		return "(Array Int " + es + ")"
	case *types.Struct, *types.Tuple:
		return ""
	}
	return sInt
}

// intRange returns the closed range of an integer type, ok=false for non-integers.
func intRange(t types.Type) (lo, hi string, ok bool) {
	b, isB := t.Underlying().(*types.Basic)
	if !isB {
		return "", "", false
	}
	switch b.Kind() {
	case types.Int8:
		return "(- 128)", "127", true
	case types.Int16:
		return "(- 32768)", "32767", true
	case types.Int32:
		return "(- 2147483648)", "2147483647", true
	case types.Int, types.Int64:
		return "(- 9223372036854775808)", "9223372036854775807", true
	case types.Uint8:
		return "0", "255", true
	case types.Uint16:
		return "0", "65535", true
	case types.Uint32, types.Float32: // float32 is modelled as its bit pattern
		return "0", "4294967295", true
	case types.Uint, types.Uint64, types.Uintptr, types.Float64:
		return "0", "18446744073709551615", true
	case types.UntypedInt, types.UntypedRune:
		return "", "", false
	}
	return "", "", false
}

func bitsOf(t types.Type) (bits int, signed bool, ok bool) {
	b, isB := t.Underlying().(*types.Basic)
	if !isB {
		return 0, false, false
	}
	switch b.Kind() {
	case types.Int8:
		return 8, true, true
	case types.Int16:
		return 16, true, true
	case types.Int32:
		return 32, true, true
	case types.Int, types.Int64:
		return 64, true, true
	case types.Uint8:
		return 8, false, true
	case types.Uint16:
		return 16, false, true
	case types.Uint32, types.Float32:
		return 32, false, true
	case types.Uint, types.Uint64, types.Uintptr, types.Float64:
		return 64, false, true
	}
	return 0, false, false
}

func pow2(n int) string {
	// exact decimal for 2^n, n <= 128
	digits := []int{1}
	for i := 0; i < n; i++ {
		carry := 0
		for j := range digits {
			v := digits[j]*2 + carry
			digits[j] = v % 10
			carry = v / 10
		}
		if carry > 0 {
			digits = append(digits, carry)
		}
	}
	var sb strings.Builder
	for i := len(digits) - 1; i >= 0; i-- {
		sb.WriteByte(byte('0' + digits[i]))
	}
	return sb.String()
}

// wrap returns term reduced into the range of integer type t (two's complement).
func wrap(term string, t types.Type) string {
	bits, signed, ok := bitsOf(t)
	if !ok {
		return term
	}
	m := pow2(bits)
	if !signed {
		return fmt.Sprintf("(let ((wx %s)) (ite (and (<= 0 wx) (< wx %s)) wx (mod wx %s)))", term, m, m)
	}
	h := pow2(bits - 1)
	return fmt.Sprintf("(let ((wx %s)) (ite (and (<= (- %s) wx) (< wx %s)) wx (let ((wm (mod wx %s))) (ite (< wm %s) wm (- wm %s)))))", term, h, h, m, h, m)
}

var reAlias = regexp.MustCompile(`\b(byte|rune)\b`)

// typeName prints a type with package names and with the predeclared aliases
// byte/rune replaced by uint8/int32, so that identical types get identical heap maps.
func typeName(t types.Type) string {
	s := types.TypeString(t, func(p *types.Package) string { return p.Name() })
	return reAlias.ReplaceAllStringFunc(s, func(m string) string {
		if m == "byte" {
			return "uint8"
		}
		return "int32"
	})
}

// elemMapKey names the heap map holding values of (non-struct) type t.
func elemMapKey(t types.Type) string {
	switch u := t.Underlying().(type) {
	case *types.Basic:
		if u.Kind() == types.UnsafePointer {
			return "E$unsafeptr"
		}
		return "E$" + types.Typ[u.Kind()].Name()
	case *types.Pointer:
		return "E$ptr$" + sanitize(typeName(u.Elem()))
	case *types.Slice:
		return "E$slice$" + sanitize(typeName(u.Elem()))
	case *types.Map:
		return "E$map$" + sanitize(typeName(t))
	case *types.Interface:
		return "E$iface"
	case *types.Array:
		return "E$array$" + sanitize(typeName(t))
	case *types.Signature:
		return "E$func"
	case *types.Chan:
		return "E$chan"
	}
	return "E$" + sanitize(typeName(t))
}

func sanitize(s string) string {
	r := strings.NewReplacer(" ", "", "*", "P_", "[", "L", "]", "J", "(", "_", ")", "_", ",", "_", "{", "_", "}", "_", ";", "_", "/", "_", "|", "_")
	return r.Replace(s)
}

func sym(s string) string {
	for _, c := range s {
		if !(c == '_' || c == '$' || c == '.' || c == '@' || c == '!' || (c >= '0' && c <= '9') || (c >= 'a' && c <= 'z') || (c >= 'A' && c <= 'Z')) {
			return "|" + s + "|"
		}
	}
	return s
}

// structFieldMapKey names the heap map for field path fp of named struct st.
func structFieldMapKey(root types.Type, names []string) string {
	return "H$" + sanitize(typeName(root)) + "$" + strings.Join(names, "$")
}

func zeroValue(t types.Type) SV {
	switch u := t.Underlying().(type) {
	case *types.Struct:
		sv := SV{Typ: t}
		for i := 0; i < u.NumFields(); i++ {
			sv.Agg = append(sv.Agg, zeroValue(u.Field(i).Type()))
		}
		return sv
	case *types.Tuple:
		sv := SV{Typ: t}
		for i := 0; i < u.Len(); i++ {
			sv.Agg = append(sv.Agg, zeroValue(u.At(i).Type()))
		}
		return sv
	case *types.Array:
		es := sortOf(u.Elem())
		if es == "" {
			return SV{Typ: t, Sort: "", T: ""}
		}
		z := zeroValue(u.Elem())
		return SV{Typ: t, Sort: sortOf(t), T: fmt.Sprintf("((as const %s) %s)", sortOf(t), z.T)}
	}
	s := sortOf(t)
	switch s {
	case sInt:
		return SV{Typ: t, Sort: s, T: "0"}
	case sBool:
		return SV{Typ: t, Sort: s, T: "false"}
	case sStr:
		return SV{Typ: t, Sort: s, T: "str.empty"}
	case sLoc:
		return SV{Typ: t, Sort: s, T: nilLoc}
	case sSlice:
		return SV{Typ: t, Sort: s, T: nilSlice}
	case sIface:
		return SV{Typ: t, Sort: s, T: nilIface}
	}
	return SV{Typ: t, Sort: s, T: "0"}
}

func sortedKeys[V any](m map[string]V) []string {
	ks := make([]string, 0, len(m))
	for k := range m {
		ks = append(ks, k)
	}
	sort.Strings(ks)
	return ks
}

func and(ts ...string) string {
	var xs []string
	for _, t := range ts {
		if t == "" || t == "true" {
			continue
		}
		xs = append(xs, t)
	}
	switch len(xs) {
	case 0:
		return "true"
	case 1:
		return xs[0]
	}
	return "(and " + strings.Join(xs, " ") + ")"
}

func or(ts ...string) string {
	var xs []string
	for _, t := range ts {
		if t == "false" || t == "" {
			continue
		}
		xs = append(xs, t)
	}
	switch len(xs) {
	case 0:
		return "false"
	case 1:
		return xs[0]
	}
	return "(or " + strings.Join(xs, " ") + ")"
}

func not(t string) string {
	if t == "true" {
		return "false"
	}
	if t == "false" {
		return "true"
	}
	return "(not " + t + ")"
}

func eq(a, b string) string { return "(= " + a + " " + b + ")" }

func locOff(loc string, off string) string {
	if off == "0" {
		return loc
	}
	return fmt.Sprintf("(mk-loc (l-ref %s) (+ (l-idx %s) %s))", loc, loc, off)
}
