package iohelp

// Concrete harness for package iohelp, injected with `go test -overlay` (never
// written into the repository). It serves two purposes: (1) replay aid — find a
// concrete failing input for an obligation the verifier could not discharge;
// (2) bounded stand-in, labelled as such — exhaustive 8/16-bit execution of the
// real unsafe loads/stores validating axiom U1 on this machine.
//
// Output: one JSON object per line on the file named by VERIF_OUT.

import (
	"bytes"
	"encoding/json"
	"errors"
	"fmt"
	"io"
	"math"
	"os"
	"testing"
	"time"
)

type vfinding struct {
	Func  string                 `json:"func"`
	Kind  string                 `json:"kind"` // stale | panic | roundtrip | layout | agree | latch
	Input map[string]interface{} `json:"input"`
	Got   string                 `json:"got"`
	Want  string                 `json:"want"`
}

type vout struct {
	f     *os.File
	cases int
	kinds map[string]int
}

func (o *vout) fail(fn, kind string, in map[string]interface{}, got, want interface{}) {
	b, _ := json.Marshal(vfinding{fn, kind, in, fmt.Sprint(got), fmt.Sprint(want)})
	o.f.Write(append(b, '\n'))
}

func (o *vout) count(kind string, n int) { o.cases += n; o.kinds[kind] += n }

// failAfter delivers data[:n] and then fails with err.
type failAfter struct {
	data []byte
	err  error
}

func (f *failAfter) Read(p []byte) (int, error) {
	if len(f.data) == 0 {
		return 0, f.err
	}
	n := copy(p, f.data)
	f.data = f.data[n:]
	return n, nil
}

func refLE(buf []byte, k int) uint64 {
	var v uint64
	for j := 0; j < k; j++ {
		v |= uint64(buf[j]) << (8 * uint(j))
	}
	return v
}

func catch(f func()) (p interface{}) {
	defer func() { p = recover() }()
	f()
	return nil
}

func TestVerifIohelp(t *testing.T) {
	path := os.Getenv("VERIF_OUT")
	if path == "" {
		t.Skip("VERIF_OUT not set")
	}
	fh, err := os.Create(path)
	if err != nil {
		t.Fatal(err)
	}
	defer fh.Close()
	o := &vout{f: fh, kinds: map[string]int{}}
	thorough := os.Getenv("VERIF_TIER") == "thorough"

	// ---- U1 / layout / round trip: exhaustive for 8- and 16-bit values -------------
	buf := make([]byte, 16)
	for v := 0; v < 1<<16; v++ {
		WriteUint16Bytes(buf, uint16(v))
		if buf[0] != byte(v) || buf[1] != byte(v>>8) {
			o.fail("WriteUint16Bytes", "layout", map[string]interface{}{"v": v}, buf[:2], "little-endian")
		}
		if got := ReadUint16Bytes(buf); got != uint16(v) {
			o.fail("ReadUint16Bytes", "roundtrip", map[string]interface{}{"v": v}, got, v)
		}
		WriteInt16Bytes(buf, int16(v))
		if got := ReadInt16Bytes(buf); got != int16(v) {
			o.fail("ReadInt16Bytes", "roundtrip", map[string]interface{}{"v": int16(v)}, got, int16(v))
		}
		var w bytes.Buffer
		ew := NewErrorWriter(&w)
		WriteUint16(ew, uint16(v))
		WriteInt16(ew, int16(v))
		if !bytes.Equal(w.Bytes(), []byte{byte(v), byte(v >> 8), byte(v), byte(v >> 8)}) {
			o.fail("WriteUint16", "agree", map[string]interface{}{"v": v}, w.Bytes(), "same bytes as WriteUint16Bytes")
		}
		er := NewErrorReader(bytes.NewReader(w.Bytes()))
		if got := ReadUint16(er); got != uint16(v) {
			o.fail("ReadUint16", "agree", map[string]interface{}{"v": v}, got, v)
		}
		if got := ReadInt16(er); got != int16(v) {
			o.fail("ReadInt16", "agree", map[string]interface{}{"v": v}, got, int16(v))
		}
	}
	o.count("u1-16bit-exhaustive", 1<<16)
	for v := 0; v < 256; v++ {
		WriteUint8Bytes(buf, uint8(v))
		WriteByteBytes(buf[1:], byte(v))
		if ReadUint8Bytes(buf) != uint8(v) || ReadByteBytes(buf[1:]) != byte(v) {
			o.fail("ReadUint8Bytes", "roundtrip", map[string]interface{}{"v": v}, buf[:2], v)
		}
		if ReadBoolBytes(buf) != (v == 1) {
			o.fail("ReadBoolBytes", "layout", map[string]interface{}{"v": v}, ReadBoolBytes(buf), v == 1)
		}
	}
	o.count("u1-8bit-exhaustive", 256)
	// boundary + seeded pseudo-random 32/64-bit patterns (NaN payloads included)
	seed := uint64(0x9E3779B97F4A7C15)
	if s := os.Getenv("VERIF_SEED"); s != "" {
		var x uint64
		fmt.Sscan(s, &x)
		seed ^= x * 0xBF58476D1CE4E5B9
	}
	next := func() uint64 { seed ^= seed << 13; seed ^= seed >> 7; seed ^= seed << 17; return seed }
	pats := []uint64{0, 1, 0x7f, 0x80, 0xff, 0x100, 0x7fff, 0x8000, 0xffff, 0x7fffffff, 0x80000000, 0xffffffff,
		0x7fffffffffffffff, 0x8000000000000000, 0xffffffffffffffff, 0x7fc00001, 0x7f800001, 0xffc12345, 0x7ff8000000000001, 0xfff0000000000001, 0x0102030405060708}
	nr := 2000
	if thorough {
		nr = 200000
	}
	for i := 0; i < nr; i++ {
		pats = append(pats, next())
	}
	for _, p := range pats {
		WriteUint32Bytes(buf, uint32(p))
		if refLE(buf, 4) != uint64(uint32(p)) || ReadUint32Bytes(buf) != uint32(p) || ReadInt32Bytes(buf) != int32(uint32(p)) {
			o.fail("WriteUint32Bytes", "layout", map[string]interface{}{"v": uint32(p)}, buf[:4], "little-endian")
		}
		if math.Float32bits(ReadFloat32Bytes(buf)) != uint32(p) {
			o.fail("ReadFloat32Bytes", "roundtrip", map[string]interface{}{"bits": uint32(p)}, math.Float32bits(ReadFloat32Bytes(buf)), uint32(p))
		}
		WriteFloat32Bytes(buf, math.Float32frombits(uint32(p)))
		if refLE(buf, 4) != uint64(uint32(p)) {
			o.fail("WriteFloat32Bytes", "roundtrip", map[string]interface{}{"bits": uint32(p)}, refLE(buf, 4), uint32(p))
		}
		WriteUint64Bytes(buf, p)
		if refLE(buf, 8) != p || ReadUint64Bytes(buf) != p || ReadInt64Bytes(buf) != int64(p) {
			o.fail("WriteUint64Bytes", "layout", map[string]interface{}{"v": p}, buf[:8], "little-endian")
		}
		if math.Float64bits(ReadFloat64Bytes(buf)) != p {
			o.fail("ReadFloat64Bytes", "roundtrip", map[string]interface{}{"bits": p}, math.Float64bits(ReadFloat64Bytes(buf)), p)
		}
		WriteInt64Bytes(buf, int64(p))
		WriteInt32Bytes(buf[8:], int32(p))
		if ReadInt64Bytes(buf) != int64(p) || ReadInt32Bytes(buf[8:]) != int32(p) {
			o.fail("WriteInt64Bytes", "roundtrip", map[string]interface{}{"v": int64(p)}, buf, p)
		}
	}
	o.count("wide-patterns", len(pats))

	// ---- GUID field order -------------------------------------------------------------
	g := [16]byte{0, 1, 2, 3, 4, 5, 6, 7, 8, 9, 10, 11, 12, 13, 14, 15}
	WriteGUIDBytes(buf, g)
	wantG := []byte{3, 2, 1, 0, 5, 4, 7, 6, 8, 9, 10, 11, 12, 13, 14, 15}
	if !bytes.Equal(buf, wantG) {
		o.fail("WriteGUIDBytes", "layout", map[string]interface{}{"guid": g[:]}, buf, wantG)
	}
	if ReadGUIDBytes(buf) != g {
		o.fail("ReadGUIDBytes", "roundtrip", map[string]interface{}{"guid": g[:]}, ReadGUIDBytes(buf), g)
	}
	{
		var w bytes.Buffer
		WriteGUID(NewErrorWriter(&w), g)
		if !bytes.Equal(w.Bytes(), wantG) {
			o.fail("WriteGUID", "agree", map[string]interface{}{"guid": g[:]}, w.Bytes(), wantG)
		}
		if ReadGUID(NewErrorReader(bytes.NewReader(wantG))) != g {
			o.fail("ReadGUID", "agree", map[string]interface{}{"wire": wantG}, "", g)
		}
	}
	o.count("guid", 4)

	// ---- dates: tick 0 <-> zero time ----------------------------------------------------
	for _, tk := range []int64{0, 1, -1, 100, 1 << 40, -(1 << 40), math.MaxInt64 / 100, math.MinInt64 / 100} {
		WriteInt64Bytes(buf, tk)
		d := ReadDateBytes(buf)
		if (tk == 0) != d.IsZero() {
			o.fail("ReadDateBytes", "layout", map[string]interface{}{"ticks": tk}, d, "zero time iff tick 0")
		}
		if tk != 0 && d.UnixNano() != tk*100 {
			o.fail("ReadDateBytes", "roundtrip", map[string]interface{}{"ticks": tk}, d.UnixNano(), tk*100)
		}
		if tk != 0 && d.Location() != time.UTC {
			o.fail("ReadDateBytes", "layout", map[string]interface{}{"ticks": tk}, d.Location(), "UTC")
		}
	}
	o.count("dates", 8)

	// ---- checked strings: every buffer length around the required width ---------------
	counts := []uint32{0, 1, 2, 3, 4, 5, 6, 7, 8, 9, 0x7fffffff, 0x80000000, math.MaxUint32 - 4, math.MaxUint32 - 3, math.MaxUint32 - 2, math.MaxUint32 - 1, math.MaxUint32}
	for n := 0; n <= 12; n++ {
		for _, cnt := range counts {
			b := make([]byte, n)
			if n >= 4 {
				WriteUint32Bytes(b, cnt)
			}
			for _, fn := range []struct {
				name string
				f    func([]byte) (string, error)
			}{{"ReadStringBytes", ReadStringBytes}, {"ReadStringBytesSharedMemory", ReadStringBytesSharedMemory}} {
				var s string
				var err error
				if p := catch(func() { s, err = fn.f(b) }); p != nil {
					o.fail(fn.name, "panic", map[string]interface{}{"len": n, "count": cnt}, p, "error")
					continue
				}
				okWant := n >= 4 && uint64(n) >= 4+uint64(cnt)
				if (err == nil) != okWant || (okWant && s != string(b[4:4+cnt])) {
					o.fail(fn.name, "layout", map[string]interface{}{"len": n, "count": cnt}, fmt.Sprint(s, err), okWant)
				}
			}
		}
	}
	o.count("string-lengths", 13*len(counts)*2)
	// counts near 2^32 need a >4 GiB buffer (sparse allocation); the uint32 sum 4+sz wraps
	if os.Getenv("VERIF_BIG") != "" || thorough {
		big := make([]byte, 1<<32+8)
		for _, cnt := range []uint32{math.MaxUint32, math.MaxUint32 - 3, math.MaxUint32 - 4} {
			WriteUint32Bytes(big, cnt)
			for _, fn := range []struct {
				name string
				f    func([]byte) (string, error)
			}{{"ReadStringBytes", ReadStringBytes}, {"ReadStringBytesSharedMemory", ReadStringBytesSharedMemory}} {
				if p := catch(func() { _, _ = fn.f(big) }); p != nil {
					o.fail(fn.name, "panic", map[string]interface{}{"len": len(big), "count": cnt}, p, "no panic")
				}
			}
		}
		o.count("string-4GiB", 6)
	}

	// ---- stream readers: every failure point; stale scratch must not be returned -----
	type rd struct {
		name  string
		width int
		read  func(r *ErrorReader) interface{}
		zero  interface{}
	}
	readers := []rd{
		{"ReadBool", 1, func(r *ErrorReader) interface{} { return ReadBool(r) }, false},
		{"ReadByte", 1, func(r *ErrorReader) interface{} { return ReadByte(r) }, byte(0)},
		{"ReadUint8", 1, func(r *ErrorReader) interface{} { return ReadUint8(r) }, uint8(0)},
		{"ReadUint16", 2, func(r *ErrorReader) interface{} { return ReadUint16(r) }, uint16(0)},
		{"ReadInt16", 2, func(r *ErrorReader) interface{} { return ReadInt16(r) }, int16(0)},
		{"ReadUint32", 4, func(r *ErrorReader) interface{} { return ReadUint32(r) }, uint32(0)},
		{"ReadInt32", 4, func(r *ErrorReader) interface{} { return ReadInt32(r) }, int32(0)},
		{"ReadUint64", 8, func(r *ErrorReader) interface{} { return ReadUint64(r) }, uint64(0)},
		{"ReadInt64", 8, func(r *ErrorReader) interface{} { return ReadInt64(r) }, int64(0)},
		{"ReadFloat32", 4, func(r *ErrorReader) interface{} { return math.Float32bits(ReadFloat32(r)) }, uint32(0)},
		{"ReadFloat64", 8, func(r *ErrorReader) interface{} { return math.Float64bits(ReadFloat64(r)) }, uint64(0)},
		{"ReadDate", 8, func(r *ErrorReader) interface{} { return ReadDate(r).UnixNano() }, time.Time{}.UnixNano()},
	}
	boom := errors.New("boom")
	for _, x := range readers {
		for k := 0; k < x.width; k++ { // k bytes arrive, then the reader fails
			for _, e := range []error{io.EOF, boom} {
				// two runs that differ only in what an earlier read left in the scratch buffer
				var res [2]interface{}
				var errs [2]error
				for run, fill := range []byte{0x01, 0xEE} {
					prime := bytes.Repeat([]byte{fill}, 8)
					fresh := bytes.Repeat([]byte{0x5A}, k)
					er := NewErrorReader(&failAfter{data: append(append([]byte{}, prime...), fresh...), err: e})
					_ = ReadUint64(er) // earlier successful read leaves `fill` in the scratch
					res[run] = x.read(er)
					errs[run] = er.Err
				}
				if errs[0] == nil || errs[1] == nil {
					o.fail(x.name, "latch", map[string]interface{}{"bytes_before_failure": k, "err": e.Error()}, "Err == nil", "Err != nil")
				}
				if res[0] != res[1] {
					o.fail(x.name, "stale", map[string]interface{}{"bytes_before_failure": k, "err": e.Error(), "scratch_fill": []int{0x01, 0xEE}}, fmt.Sprint(res[0], " vs ", res[1]), "a result independent of the earlier read")
				}
			}
		}
		o.count("stream-fault-points", x.width*4)
	}
	// strings over a failing stream
	for k := 0; k < 4+3; k++ {
		data := []byte{3, 0, 0, 0, 'a', 'b', 'c'}
		er := NewErrorReader(&failAfter{data: append([]byte{}, data[:k]...), err: io.EOF})
		var s string
		if p := catch(func() { s = ReadString(er) }); p != nil {
			o.fail("ReadString", "panic", map[string]interface{}{"bytes_before_failure": k}, p, "no panic")
		}
		if er.Err == nil {
			o.fail("ReadString", "latch", map[string]interface{}{"bytes_before_failure": k}, s, "Err != nil")
		}
	}
	o.count("stream-strings", 7)
	b, _ := json.Marshal(map[string]interface{}{"summary": true, "cases": o.cases, "kinds": o.kinds})
	fh.Write(append(b, '\n'))
}
