#!/bin/sh
# confirm_seed.sh <id> [wt-prefix] [seed-prefix]: my own confirmation of a seeded change in the agent's scratch worktree
# (patch applied there): the suite passes with the patch; the demonstration fails with it and passes without.
id=$1; WT=${2:-/tmp/wt5-}$id; S=${3:-/tmp/seed5-}$id
export GOFLAGS=-mod=mod GOPROXY=off GOSUMDB=off GOTOOLCHAIN=local
cd $WT || exit 2
git diff > /tmp/confirm_$id.diff
if ! diff -q /tmp/confirm_$id.diff $S/patch.diff >/dev/null; then echo "$id: patch.diff differs from worktree diff"; fi
go test -vet=off -count=1 ./... > /tmp/confirm_$id.suite 2>&1; echo "$id suite rc=$? status: $(git status --short | tr '\n' ' ')"
sh $S/demo/run_demo.sh $WT > /tmp/confirm_$id.with 2>&1; echo "$id demo with patch rc=$?"
# (git stash is shared by all worktrees of a repository: reverse-apply the patch instead)
git apply -R /tmp/confirm_$id.diff
sh $S/demo/run_demo.sh $WT > /tmp/confirm_$id.without 2>&1; echo "$id demo without patch rc=$?"
git apply /tmp/confirm_$id.diff
echo "$id final status: $(git status --short | tr '\n' ' ')"
