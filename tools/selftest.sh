#!/bin/sh
# selftest.sh [seed-id ...] — must-fail corpus: every seeded change under /verif/seeded is applied to a scratch
# worktree of /repo (never to /repo itself), the quick check of its property is run against that worktree with a
# scratch verification directory (so /verif/evidence is untouched), and the outcome is compared with what
# meta.json records (caught / MISSED). Patches that no longer apply to the current tree (the code they touch has
# since been repaired) are reported as stale and skipped.
#   exit 0: every applicable seed behaved as recorded; exit 1 otherwise.
V=/tmp/selftest-verif
rm -rf $V && mkdir -p $V && cp -r /verif/contracts /verif/harness /verif/known_findings.json /verif/properties.jsonl $V/
ids="$@"; [ -z "$ids" ] && ids=$(ls /verif/seeded | grep -v '^_')
bad=0
for id in $ids; do
  d=/verif/seeded/$id; [ -f $d/meta.json ] || continue
  prop=$(python3 -c "import json;print(json.load(open('$d/meta.json'))['property'])")
  expect=$(python3 -c "import json;m=json.load(open('$d/meta.json'))['caught_by'];print('missed' if (m.startswith('MISSED') and not m.startswith('MISSED by')) else 'caught')")
  wt=/tmp/selftest-wt-$id
  git -C /repo worktree add -q --detach $wt HEAD || { echo "$id: cannot create worktree"; bad=1; continue; }
  if git -C $wt apply $d/patch.diff 2>/dev/null; then
    out=$(/verif/bin/check --verif $V $prop --tier quick --repo $wt 2>&1); nv=$(echo "$out" | grep -c '^VIOLATION')
    got=caught; [ "$nv" = 0 ] && got=missed
    tag=ok; [ "$got" != "$expect" ] && { tag=DIFFERS; bad=1; }
    echo "$id: property=$prop violations=$nv got=$got recorded=$expect $tag"
  else
    echo "$id: stale (patch does not apply to the current tree), skipped"
  fi
  git -C /repo worktree remove --force $wt
done
rm -rf $V
exit $bad
