#!/bin/sh
# usage: try_seed.sh <patch.diff> <property>...   — applies the patch to /repo, runs the quick checks, reverts.
patch="$1"; shift
cd /repo || exit 2
if ! git diff --quiet; then echo "repo dirty"; exit 2; fi
git apply "$patch" || { echo "patch does not apply"; exit 2; }
# the evidence files committed under /verif describe the unchanged tree: keep them out of seed runs
ev=$(mktemp -d) && cp -a /verif/evidence/. "$ev"/
for p in "$@"; do
  out=$(/verif/bin/check "$p" --tier quick 2>&1); code=$?
  nv=$(echo "$out" | grep -c '^VIOLATION')
  echo "== $p exit=$code violations=$nv"
  echo "$out" | grep -v '^VIOLATION' | tail -2
  for f in $(echo "$out" | grep '^VIOLATION' | sed 's/.*replay=\([^ ]*\).*/\1/' | head -6); do
    python3 -c "import json,sys; d=json.load(open('$f')); print('   ', d['reason'], d['obligation'][:150], '| input:', str(d.get('failing_input'))[:120])"
  done
done
git -C /repo checkout -- .
rm -rf /verif/evidence && mkdir -p /verif/evidence && cp -a "$ev"/. /verif/evidence/ && rm -rf "$ev"
rm -rf /verif/replays
git -C /repo status --short | head -3
